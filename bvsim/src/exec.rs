//! The executor: exec(Trace) -> Outcome. No PRNG, no clock, no HashMap iteration: a trace file
//! alone reproduces a run. Oracles are evaluated as the run proceeds (DESIGN §4, §5).

use crate::battery::{abs_string, abs_string_any, battery, first_diff, flat_hash, growth, sip_hash, typed_hash};
use crate::guard::{guard, is_injected};
use crate::model::{self, Bits};
use crate::seams::*;
use crate::trace::*;
use crate::types::*;

use bva::{Bit, BitVector, Endianness};
use std::collections::{BTreeMap, HashSet, VecDeque};

#[derive(Clone, Debug)]
pub struct Violation {
    /// properties this observation violates (the check reports it only if its own is listed)
    pub props: Vec<&'static str>,
    pub oracle: String,
    pub kind: String,
    pub tclass: String,
    pub tname: String,
    pub step: usize,
    pub msg: String,
}

impl Violation {
    pub fn signature(&self) -> String {
        format!("{}/{}/{}", self.kind, self.tclass, self.oracle)
    }
    pub fn line(&self, prop: &str) -> String {
        format!("violation property={} oracle={} kind={} type={} step={}", prop, self.oracle, self.kind, self.tname, self.step)
    }
}

#[derive(Clone, Debug, Default)]
pub struct Outcome {
    pub violation: Option<Violation>,
    pub foreign: BTreeMap<String, u64>,
    pub stats: BTreeMap<&'static str, u64>,
    pub harness_error: Option<String>,
    /// the trace's own oracle was evaluated at least once
    pub oracle_evals: u64,
    /// at least one fault / perturbation / caught panic relevant to the run fired
    pub nontrivial: bool,
    pub steps_run: usize,
    /// distinct (type, len class, representation class) states seen
    pub states: Vec<u32>,
}

pub struct Holder {
    pub subj: AnyBv,
    pub model: Bits,
    /// survivor of a panic raised by bva itself: C03 is not demanded of it until it is replaced
    pub tainted: bool,
}

#[derive(Clone, Debug)]
pub struct Msg {
    pub bits: Bits,
    pub big: bool,
    pub nbytes: usize,
    pub junk: bool,
    pub partial: bool,
    pub corrupted: bool,
}

#[derive(Default)]
pub struct Pipe {
    pub bytes: VecDeque<u8>,
    pub msgs: VecDeque<Msg>,
    pub broken: bool,
}

#[derive(Clone, Copy, Default)]
pub struct Mask {
    pub c03: bool,
    pub c07: bool,
    pub c10: bool,
    pub c12: bool,
    pub c13: bool,
    pub c16: bool,
    pub c17: bool,
    pub c18: bool,
    pub c19: bool,
}

pub struct Exec<'t> {
    pub trace: &'t Trace,
    pub dbg: bool,
    pub holders: Vec<Holder>,
    pub pipes: Vec<Pipe>,
    pub out: Outcome,
    pub mask: Mask,
    pub step_idx: usize,
    pub log: Option<Vec<String>>,
    pub own: String,
}

pub const MAXLEN_GROW: usize = 2048;

pub fn maxlen(tid: u8, scale: usize) -> usize {
    FIXED_CAP[tid as usize].unwrap_or(scale)
}

fn end(big: bool) -> Endianness {
    if big {
        Endianness::Big
    } else {
        Endianness::Little
    }
}

pub fn pack_bytes(items: &[bool]) -> Vec<u8> {
    let nb = items.len() / 8;
    (0..nb).map(|j| (0..8).fold(0u8, |acc, k| acc | ((items[j * 8 + k] as u8) << k))).collect()
}

/// arguments of a step after reduction against the state before the step (identical for the
/// subject and its twin)
#[derive(Clone, Debug, Default)]
pub struct Res {
    pub skip: bool,
    pub x: usize,
    pub y: usize,
    pub opnd: Option<AnyBv>,
    pub opnd_bits: Bits,
    pub rhs: Option<Rhs>,
    pub items: Bits,
    pub text: String,
    pub bytes: Vec<u8>,
    pub panic_after: Option<usize>,
    /// what the list model says the result is (None: the model has no opinion)
    pub expect: Option<Bits>,
    pub expect_ret: Option<String>,
    /// length the model result would have (for capacity overflow expectations)
    pub want_len: Option<usize>,
}

pub fn is_edit(k: Kind) -> bool {
    matches!(
        k,
        Kind::Push
            | Kind::Pop
            | Kind::Set
            | Kind::Resize
            | Kind::Truncate
            | Kind::SignExtend
            | Kind::Append
            | Kind::Prepend
            | Kind::Insert
            | Kind::SplitOff
            | Kind::Split
            | Kind::CopyRange
            | Kind::Extend
            | Kind::Collect
    )
}
pub fn is_constructor(k: Kind) -> bool {
    matches!(
        k,
        Kind::Zeros | Kind::Ones | Kind::Repeat | Kind::WithCapacity | Kind::FromBytes | Kind::FromBinary | Kind::FromHex | Kind::FromUint | Kind::FromSlice | Kind::Collect
    )
}
pub fn is_workload(k: Kind) -> bool {
    matches!(k, Kind::Binop | Kind::Shift | Kind::Not | Kind::ShlIn | Kind::ShrIn | Kind::Rotl | Kind::Rotr | Kind::DivRem)
}
pub fn is_perturb(k: Kind) -> bool {
    matches!(k, Kind::Reserve | Kind::Shrink | Kind::CloneReplace | Kind::PromoteDemote | Kind::ViaImpl | Kind::WireTrip | Kind::RawTrip)
}
/// operations C19 names as panicking when a fixed capacity would be exceeded
pub fn c19_must_panic(k: Kind) -> bool {
    matches!(
        k,
        Kind::Zeros | Kind::Ones | Kind::Push | Kind::Resize | Kind::Append | Kind::Prepend | Kind::Insert | Kind::Extend | Kind::Collect
    )
}
/// operations C19 names as returning an error beyond a fixed capacity
pub fn c19_must_err(k: Kind) -> bool {
    matches!(k, Kind::FromBytes | Kind::FromBinary | Kind::FromHex | Kind::FromUint | Kind::FromSlice)
}

include!("exec_step.rs");
include!("exec_riders.rs");
include!("exec_seams.rs");
