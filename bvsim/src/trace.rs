//! A trace is a complete run: holders, initial values, steps with every argument and every
//! scripted seam decision spelled out. It contains no seed: the file *is* the run.
//! All numeric arguments are raw and are reduced against execution-time state by the executor,
//! so every subsequence of a valid trace is a valid trace (which is what makes shrinking a
//! plain delete-and-retry loop).

use crate::model::{bits_from_string, bits_to_string, Bits};
use crate::types::{tid_from_name, TYPE_NAMES};

macro_rules! kinds {
    ($($name:ident => $text:expr),+ $(,)?) => {
        #[derive(Clone, Copy, Debug, PartialEq, Eq, PartialOrd, Ord, Hash)]
        pub enum Kind { $($name),+ }
        impl Kind {
            pub fn name(self) -> &'static str { match self { $(Kind::$name => $text),+ } }
            pub fn parse(s: &str) -> Option<Kind> { match s { $($text => Some(Kind::$name),)+ _ => None } }
            pub const ALL: &'static [Kind] = &[$(Kind::$name),+];
        }
    };
}

kinds! {
    // edits with a list model (group 1)
    Push => "push", Pop => "pop", Set => "set", Resize => "resize", Truncate => "truncate",
    SignExtend => "sign_extend", Append => "append", Prepend => "prepend", Insert => "insert",
    SplitOff => "split_off", Split => "split", CopyRange => "copy_range", Extend => "extend", Collect => "collect",
    // constructors that replace the subject
    Zeros => "zeros", Ones => "ones", Repeat => "repeat", WithCapacity => "with_capacity",
    FromBytes => "from_bytes", FromBinary => "from_binary", FromHex => "from_hex", FromUint => "from_uint",
    FromSlice => "from_slice",
    // state-reaching workload without its own model (group 2)
    Binop => "binop", Shift => "shift", Not => "not", ShlIn => "shl_in", ShrIn => "shr_in",
    Rotl => "rotl", Rotr => "rotr", DivRem => "div_rem", SetInt => "set_int",
    // perturbations: legal operations that must be invisible
    Reserve => "reserve", Shrink => "shrink_to_fit", CloneReplace => "clone_replace",
    PromoteDemote => "promote_demote", ViaImpl => "via_impl", WireTrip => "wire_trip", RawTrip => "raw_trip",
    // seams
    Send => "send", Corrupt => "corrupt", Junk => "junk", Trunc => "trunc", Recv => "recv",
    Hash => "hash", Iter => "iter", Battery => "battery", Convert => "convert", Counts => "counts",
    // C19: arguments outside the documented domain (debug-assertion clause)
    OutOfRange => "out_of_range",
}

/// one scripted decision of a simulated Read / Write
#[derive(Clone, Copy, Debug, PartialEq, Eq)]
pub enum Dec {
    /// deliver / accept everything offered
    Full,
    /// deliver / accept 1 + raw % (offered-1) bytes (everything when only one byte is offered)
    Short(u64),
    /// Err(ErrorKind::Interrupted)
    Eintr,
    /// Err(kind) from now on (sticky); kind index into seams::HARD_KINDS
    Hard(u8),
    /// Ok(0) from now on (sticky): EOF for a reader, a sink that accepts nothing for a writer
    Zero,
}

#[derive(Clone, Debug, PartialEq, Eq)]
pub enum Opnd {
    None,
    /// a freshly constructed vector of roster type `tid`
    Fresh { tid: u8, bits: Bits },
    /// a clone of holder h's live subject (with whatever representation its history left)
    Holder { h: u8 },
    /// native integer: width index and value
    Uint { w: u8, val: u128 },
}

#[derive(Clone, Debug, PartialEq, Eq)]
pub struct Step {
    pub kind: Kind,
    pub h: u8,
    pub a: u64,
    pub b: u64,
    pub bit: bool,
    /// big endian?
    pub big: bool,
    pub form: u8,
    /// allow the step to exceed a fixed capacity (C19 workload); otherwise arguments are clamped
    pub ovf: bool,
    pub wide: u128,
    pub opnd: Opnd,
    pub script: Vec<Dec>,
    pub items: Bits,
    pub calls: Vec<(u8, u64)>,
}

impl Step {
    pub fn new(kind: Kind, h: u8) -> Step {
        Step {
            kind,
            h,
            a: 0,
            b: 0,
            bit: false,
            big: false,
            form: 0,
            ovf: false,
            wide: 0,
            opnd: Opnd::None,
            script: vec![],
            items: vec![],
            calls: vec![],
        }
    }
}

#[derive(Clone, Debug, PartialEq, Eq)]
pub struct HolderInit {
    pub tid: u8,
    pub bits: Bits,
}

#[derive(Clone, Debug, PartialEq, Eq)]
pub struct Trace {
    pub property: String,
    /// which oracles are evaluated (property ids); part of the run
    pub oracles: Vec<String>,
    /// how often the full observer battery runs: every `battery_every` steps (0 = only on request)
    pub battery_every: u32,
    /// upper bound for the length of growable vectors in this run
    pub scale: usize,
    pub holders: Vec<HolderInit>,
    pub steps: Vec<Step>,
    pub expect: Option<String>,
    pub profile: Option<String>,
}

pub const ITER_CALLS: [&str; 11] = [
    "next", "next_back", "nth", "nth_back", "size_hint", "rev", "count", "last", "collect", "len_probe", "clone",
];

fn dec_to_string(d: &Dec) -> String {
    match d {
        Dec::Full => "full".into(),
        Dec::Short(r) => format!("short:{}", r),
        Dec::Eintr => "eintr".into(),
        Dec::Hard(k) => format!("hard:{}", k),
        Dec::Zero => "zero".into(),
    }
}
fn dec_parse(s: &str) -> Option<Dec> {
    if s == "full" {
        return Some(Dec::Full);
    }
    if s == "eintr" {
        return Some(Dec::Eintr);
    }
    if s == "zero" {
        return Some(Dec::Zero);
    }
    if let Some(r) = s.strip_prefix("short:") {
        return r.parse().ok().map(Dec::Short);
    }
    if let Some(r) = s.strip_prefix("hard:") {
        return r.parse().ok().map(Dec::Hard);
    }
    None
}

fn opnd_to_string(o: &Opnd) -> String {
    match o {
        Opnd::None => "none".into(),
        Opnd::Fresh { tid, bits } => format!("fresh:{}:{}", TYPE_NAMES[*tid as usize], bits_to_string(bits)),
        Opnd::Holder { h } => format!("holder:{}", h),
        Opnd::Uint { w, val } => format!("uint:{}:{}", w, val),
    }
}
fn opnd_parse(s: &str) -> Option<Opnd> {
    if s == "none" {
        return Some(Opnd::None);
    }
    let parts: Vec<&str> = s.split(':').collect();
    match parts[0] {
        "fresh" if parts.len() == 3 => Some(Opnd::Fresh { tid: tid_from_name(parts[1])?, bits: bits_from_string(parts[2])? }),
        "holder" if parts.len() == 2 => Some(Opnd::Holder { h: parts[1].parse().ok()? }),
        "uint" if parts.len() == 3 => Some(Opnd::Uint { w: parts[1].parse().ok()?, val: parts[2].parse().ok()? }),
        _ => None,
    }
}

impl Step {
    pub fn to_line(&self) -> String {
        let mut s = format!("step {} h={}", self.kind.name(), self.h);
        if self.a != 0 {
            s += &format!(" a={}", self.a);
        }
        if self.b != 0 {
            s += &format!(" b={}", self.b);
        }
        if self.bit {
            s += " bit=1";
        }
        if self.big {
            s += " big=1";
        }
        if self.form != 0 {
            s += &format!(" form={}", self.form);
        }
        if self.ovf {
            s += " ovf=1";
        }
        if self.wide != 0 {
            s += &format!(" wide={}", self.wide);
        }
        if self.opnd != Opnd::None {
            s += &format!(" opnd={}", opnd_to_string(&self.opnd));
        }
        if !self.script.is_empty() {
            s += &format!(" script={}", self.script.iter().map(dec_to_string).collect::<Vec<_>>().join(","));
        }
        if !self.items.is_empty() {
            s += &format!(" items={}", bits_to_string(&self.items));
        }
        if !self.calls.is_empty() {
            s += &format!(
                " calls={}",
                self.calls.iter().map(|(c, k)| format!("{}:{}", ITER_CALLS[*c as usize], k)).collect::<Vec<_>>().join(",")
            );
        }
        s
    }

    pub fn parse_line(line: &str) -> Result<Step, String> {
        let mut it = line.split_whitespace();
        if it.next() != Some("step") {
            return Err(format!("not a step line: {}", line));
        }
        let kind = it.next().and_then(Kind::parse).ok_or_else(|| format!("bad step kind: {}", line))?;
        let mut st = Step::new(kind, 0);
        for kv in it {
            if kv.starts_with('#') {
                break;
            }
            let (k, v) = kv.split_once('=').ok_or_else(|| format!("bad field {}", kv))?;
            let bad = || format!("bad value in {}", kv);
            match k {
                "h" => st.h = v.parse().map_err(|_| bad())?,
                "a" => st.a = v.parse().map_err(|_| bad())?,
                "b" => st.b = v.parse().map_err(|_| bad())?,
                "bit" => st.bit = v == "1",
                "big" => st.big = v == "1",
                "form" => st.form = v.parse().map_err(|_| bad())?,
                "ovf" => st.ovf = v == "1",
                "wide" => st.wide = v.parse().map_err(|_| bad())?,
                "opnd" => st.opnd = opnd_parse(v).ok_or_else(bad)?,
                "script" => {
                    st.script = v.split(',').map(dec_parse).collect::<Option<Vec<_>>>().ok_or_else(bad)?;
                }
                "items" => st.items = bits_from_string(v).ok_or_else(bad)?,
                "calls" => {
                    let mut calls = vec![];
                    for c in v.split(',') {
                        let (n, k) = c.split_once(':').ok_or_else(bad)?;
                        let idx = ITER_CALLS.iter().position(|x| *x == n).ok_or_else(bad)?;
                        calls.push((idx as u8, k.parse().map_err(|_| bad())?));
                    }
                    st.calls = calls;
                }
                _ => return Err(format!("unknown field {}", kv)),
            }
        }
        Ok(st)
    }
}

impl Trace {
    pub fn to_text(&self) -> String {
        let mut s = String::from("bvsim-trace 1\n");
        s += &format!("property {}\n", self.property);
        if let Some(p) = &self.profile {
            s += &format!("profile {}\n", p);
        }
        s += &format!("oracles {}\n", self.oracles.join(","));
        s += &format!("battery_every {}\n", self.battery_every);
        s += &format!("scale {}\n", self.scale);
        for (i, h) in self.holders.iter().enumerate() {
            s += &format!("holder {} {} len={} bits={}\n", i, TYPE_NAMES[h.tid as usize], h.bits.len(), bits_to_string(&h.bits));
        }
        for st in &self.steps {
            s += &st.to_line();
            s.push('\n');
        }
        if let Some(e) = &self.expect {
            s += &format!("expect {}\n", e);
        }
        s
    }

    pub fn parse(text: &str) -> Result<Trace, String> {
        let mut t = Trace {
            property: String::new(),
            oracles: vec![],
            battery_every: 1,
            scale: 200,
            holders: vec![],
            steps: vec![],
            expect: None,
            profile: None,
        };
        let mut lines = text.lines();
        match lines.next() {
            Some(l) if l.trim() == "bvsim-trace 1" => {}
            other => return Err(format!("bad magic line: {:?}", other)),
        }
        for raw in lines {
            let line = raw.trim();
            if line.is_empty() || line.starts_with('#') {
                continue;
            }
            let (head, rest) = line.split_once(' ').unwrap_or((line, ""));
            match head {
                "property" => t.property = rest.trim().to_string(),
                "profile" => t.profile = Some(rest.trim().to_string()),
                "oracles" => t.oracles = rest.trim().split(',').filter(|x| !x.is_empty()).map(|x| x.to_string()).collect(),
                "battery_every" => t.battery_every = rest.trim().parse().map_err(|_| "bad battery_every".to_string())?,
                "scale" => t.scale = rest.trim().parse().map_err(|_| "bad scale".to_string())?,
                "holder" => {
                    // holder <i> <type> len=<n> bits=<bits>
                    let parts: Vec<&str> = rest.split_whitespace().collect();
                    if parts.len() < 3 {
                        return Err(format!("bad holder line: {}", line));
                    }
                    let tid = tid_from_name(parts[1]).ok_or_else(|| format!("bad type {}", parts[1]))?;
                    let mut bits = vec![];
                    for p in &parts[2..] {
                        if let Some(b) = p.strip_prefix("bits=") {
                            bits = bits_from_string(b).ok_or_else(|| format!("bad bits in {}", line))?;
                        }
                    }
                    t.holders.push(HolderInit { tid, bits });
                }
                "step" => t.steps.push(Step::parse_line(line)?),
                "expect" => t.expect = Some(rest.trim().to_string()),
                _ => return Err(format!("unknown line: {}", line)),
            }
        }
        if t.holders.is_empty() {
            return Err("trace has no holder".into());
        }
        Ok(t)
    }

    /// FNV-1a over the canonical text (without expect/profile) - the identity of a run
    pub fn hash(&self) -> u64 {
        let mut c = self.clone();
        c.expect = None;
        c.profile = None;
        let mut h: u64 = 0xcbf29ce484222325;
        for b in c.to_text().bytes() {
            h ^= b as u64;
            h = h.wrapping_mul(0x100000001b3);
        }
        h
    }
}
