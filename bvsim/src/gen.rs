//! Generators: gen(property, seed, tier) -> Trace. The generator is the only consumer of the
//! PRNG and receives no feedback from execution. Swarm style: every run draws its own roster
//! subset, holder count, step budget, length scale, operation weights, enabled fault kinds.

use crate::model::Bits;
use crate::rng::Rng;
use crate::trace::*;
use crate::types::*;

#[derive(Clone, Copy, PartialEq, Eq, Debug)]
pub enum Tier {
    Quick,
    Thorough,
}

#[derive(Clone, Copy, Debug, Default)]
pub struct FaultCfg {
    pub short: bool,
    pub eintr: bool,
    pub hard: bool,
    pub zero: bool,
    pub corrupt: bool,
    pub junk: bool,
    pub trunc: bool,
    pub iter_panic: bool,
    pub iter_hints: bool,
    pub hostile_hint: bool,
    pub perturb: bool,
}

pub struct Gen {
    pub rng: Rng,
    pub tids: Vec<u8>,
    /// predicted length per holder: a placement heuristic only, never an oracle
    pub plen: Vec<usize>,
    pub scale: usize,
    pub cfg: FaultCfg,
    pub steps: Vec<Step>,
}

const WORDS: [usize; 5] = [8, 16, 32, 64, 128];

impl Gen {
    fn ml(&self, h: usize) -> usize {
        FIXED_CAP[self.tids[h] as usize].unwrap_or(self.scale)
    }

    /// length biased to k*w + {-1,0,1}, capacity +-1, the inline limit +-1, 0 and 1
    pub fn len_upto(&mut self, max: usize) -> usize {
        if max == 0 {
            return 0;
        }
        let r = self.rng.below(100);
        let v = if r < 8 {
            0
        } else if r < 14 {
            1
        } else if r < 50 {
            let w = *self.rng.pick(&WORDS);
            let kmax = (max / w).max(1) as u64;
            let k = self.rng.range(1, kmax) as usize;
            (k * w + self.rng.below(3) as usize).saturating_sub(1)
        } else if r < 62 {
            (max + self.rng.below(2) as usize).saturating_sub(1)
        } else if r < 72 && max >= INLINE_LIMIT {
            (INLINE_LIMIT + self.rng.below(3) as usize).saturating_sub(1)
        } else {
            self.rng.below(max as u64 + 1) as usize
        };
        v.min(max)
    }

    pub fn bits(&mut self, n: usize) -> Bits {
        let style = self.rng.below(10);
        match style {
            0 => vec![false; n],
            1 => vec![true; n],
            2 => {
                let mut b = vec![false; n];
                if n > 0 {
                    let i = self.rng.below(n as u64) as usize;
                    b[i] = true;
                }
                b
            }
            3 | 4 => {
                // runs with ends biased to word boundaries
                let mut b = Vec::with_capacity(n);
                let mut cur = self.rng.bool();
                while b.len() < n {
                    let w = *self.rng.pick(&WORDS);
                    let run = match self.rng.below(4) {
                        0 => w - b.len() % w,
                        1 => (w - b.len() % w + w).saturating_sub(1).max(1),
                        2 => w - b.len() % w + 1,
                        _ => 1 + self.rng.below(70) as usize,
                    };
                    for _ in 0..run.min(n - b.len()) {
                        b.push(cur);
                    }
                    cur = !cur;
                }
                b
            }
            5 => {
                // top bit set (carry / sign cases)
                let mut b: Bits = (0..n).map(|_| self.rng.bool()).collect();
                if n > 0 {
                    b[n - 1] = true;
                }
                b
            }
            _ => {
                let mut b = Vec::with_capacity(n);
                let mut i = 0;
                while i < n {
                    let w = self.rng.next();
                    for k in 0..64.min(n - i) {
                        b.push((w >> k) & 1 == 1);
                    }
                    i += 64;
                }
                b
            }
        }
    }

    pub fn any_holder(&mut self) -> usize {
        self.rng.below(self.tids.len() as u64) as usize
    }

    pub fn vec_operand(&mut self, operand_set_only: bool, max: usize) -> Opnd {
        if self.tids.len() > 1 && self.rng.chance(2, 5) {
            return Opnd::Holder { h: self.any_holder() as u8 };
        }
        let tid = if operand_set_only { *self.rng.pick(&OPERAND_TIDS) } else { self.rng.below(NTYPES as u64) as u8 };
        let cap = FIXED_CAP[tid as usize].unwrap_or(max.max(1));
        let n = self.len_upto(cap.min(max.max(1)));
        let bits = self.bits(n);
        Opnd::Fresh { tid, bits }
    }

    pub fn uint_operand(&mut self) -> Opnd {
        let w = self.rng.below(6) as u8;
        let val = match self.rng.below(5) {
            0 => 0,
            1 => 1,
            2 => u128::MAX,
            3 => 1u128 << self.rng.below(128),
            _ => self.rng.u128() >> self.rng.below(128),
        };
        Opnd::Uint { w, val }
    }

    fn push(&mut self, s: Step) {
        self.steps.push(s);
    }

    // ----------------------------------------------------------------------------------------
    // step families
    // ----------------------------------------------------------------------------------------

    /// one list-model edit on holder h; `ovf` lets it exceed a fixed capacity (C19 only)
    pub fn edit(&mut self, h: usize, ovf: bool) {
        let ml = self.ml(h);
        let n = self.plen[h];
        let kinds = [
            (Kind::Push, 10),
            (Kind::Pop, 8),
            (Kind::Set, 8),
            (Kind::Resize, 12),
            (Kind::Truncate, 5),
            (Kind::SignExtend, 6),
            (Kind::Append, 12),
            (Kind::Prepend, 10),
            (Kind::Insert, 10),
            (Kind::SplitOff, 5),
            (Kind::Split, 3),
            (Kind::CopyRange, 4),
            (Kind::Extend, 9),
            (Kind::Collect, 4),
        ];
        let w: Vec<u32> = kinds.iter().map(|k| k.1).collect();
        let kind = kinds[self.rng.weighted(&w)].0;
        let mut st = Step::new(kind, h as u8);
        st.bit = self.rng.bool();
        st.ovf = ovf;
        match kind {
            Kind::Push => self.plen[h] = (n + 1).min(ml),
            Kind::Pop => self.plen[h] = n.saturating_sub(1),
            Kind::Set => st.a = self.rng.next(),
            Kind::Resize | Kind::SignExtend => {
                let target = if ovf { ml + 1 + self.rng.below(130) as usize } else { self.len_upto(ml) };
                st.a = target as u64;
                if ovf && self.rng.chance(1, 10) {
                    st.b = u64::MAX;
                    st.a = self.rng.below(200);
                }
                if kind == Kind::Resize || target > n {
                    self.plen[h] = target.min(ml);
                }
            }
            Kind::Truncate => {
                st.a = self.rng.next();
            }
            Kind::Append | Kind::Prepend | Kind::Insert => {
                let room = if ovf { ml + 64 } else { ml.saturating_sub(n) };
                st.opnd = if self.rng.chance(1, 8) { Opnd::Fresh { tid: self.rng.below(NTYPES as u64) as u8, bits: vec![] } } else { self.vec_operand(false, room.max(1)) };
                st.a = self.rng.next();
                if let Opnd::Fresh { bits, .. } = &st.opnd {
                    self.plen[h] = (n + bits.len()).min(ml);
                }
            }
            Kind::SplitOff | Kind::Split => {
                st.a = match self.rng.below(4) {
                    0 => 0,
                    1 => n as u64,
                    2 => (n / 64 * 64) as u64,
                    _ => self.rng.next(),
                };
            }
            Kind::CopyRange => {
                // word-aligned starts (0, 64, 128, ...) are where fast paths live
                st.a = if self.rng.chance(2, 5) { 64 * self.rng.below((n / 64 + 1) as u64) } else { self.rng.next() };
                st.b = match self.rng.below(4) {
                    0 => self.rng.below(9),
                    1 => self.rng.below(130),
                    _ => self.rng.next(),
                };
            }
            Kind::Extend | Kind::Collect => {
                let base = if kind == Kind::Extend { n } else { 0 };
                let room = if ovf { ml + 40 } else { ml.saturating_sub(base) };
                let k = self.len_upto(room.min(300));
                st.items = self.bits(k);
                if self.cfg.iter_hints {
                    st.form = *self.rng.pick(&[0u8, 1, 2, 3, 4, 6, 7]);
                    st.b = self.rng.next();
                    st.bit = self.rng.chance(1, 3); // non-fused
                } else {
                    st.bit = false;
                }
                if self.cfg.hostile_hint && self.rng.chance(1, 4) {
                    st.form = 5;
                    st.b = self.rng.below(4096);
                }
                if ovf && self.rng.chance(1, 5) {
                    // C19 only: an upper bound below the true count (the invariant len <= capacity is all that is judged)
                    st.form = 8;
                    st.b = self.rng.next();
                }
                if self.cfg.iter_panic && self.rng.chance(1, 4) {
                    st.a = 1 + self.rng.next() % 1000;
                }
                self.plen[h] = (base + k).min(ml);
            }
            _ => {}
        }
        self.push(st);
    }

    pub fn constructor(&mut self, h: usize, ovf: bool) {
        let ml = self.ml(h);
        let kinds = [Kind::Zeros, Kind::Ones, Kind::Repeat, Kind::WithCapacity, Kind::FromBytes, Kind::FromBytes, Kind::FromBinary, Kind::FromHex, Kind::FromUint, Kind::FromSlice];
        let kind = *self.rng.pick(&kinds);
        let mut st = Step::new(kind, h as u8);
        st.bit = self.rng.bool();
        st.big = self.rng.bool();
        st.ovf = ovf;
        match kind {
            Kind::Zeros | Kind::Ones | Kind::Repeat => {
                let t = if ovf { ml + 1 + self.rng.below(130) as usize } else { self.len_upto(ml) };
                st.a = t as u64;
                if ovf && self.rng.chance(1, 8) {
                    st.b = u64::MAX;
                    st.a = self.rng.below(200);
                }
                self.plen[h] = t.min(ml);
            }
            Kind::WithCapacity => {
                st.a = *self.rng.pick(&[0u64, 1, 63, 64, 65, 127, 128, 129, 200, 640, 1000]);
                self.plen[h] = 0;
            }
            Kind::FromBytes | Kind::FromBinary | Kind::FromHex | Kind::FromSlice => {
                st.a = self.rng.below(6);
                let unit = match kind {
                    Kind::FromBytes => 8,
                    Kind::FromHex => 4,
                    Kind::FromSlice => [8, 16, 32, 64, 128, 64][st.a as usize],
                    _ => 1,
                };
                let t = if ovf { ml + unit + self.rng.below(64) as usize } else { self.len_upto(ml) };
                let t = t / unit * unit;
                st.items = self.bits(t);
                self.plen[h] = t.min(ml);
            }
            _ => {
                st.a = self.rng.below(6);
                st.wide = match self.rng.below(6) {
                    0 => 0,
                    1 => u128::MAX,
                    2 => 1u128 << self.rng.below(128),
                    3 | 4 => {
                        // exactly capacity-1 / capacity / capacity+1 significant bits (or a word width +-1)
                        let base = if self.rng.bool() { ml.min(128) } else { *self.rng.pick(&[8usize, 16, 32, 64, 128]) };
                        let sig = (base + self.rng.below(3) as usize).saturating_sub(1).clamp(1, 128);
                        let top = 1u128 << (sig - 1);
                        top | (self.rng.u128() & (top - 1))
                    }
                    _ => self.rng.u128() >> self.rng.below(128),
                };
                self.plen[h] = [8, 16, 32, 64, 128, 64][st.a as usize].min(ml);
            }
        }
        self.push(st);
    }

    /// arithmetic / logic / shift / rotation: produces the states C03 and C18 talk about
    pub fn workload(&mut self, h: usize) {
        let n = self.plen[h];
        let r = self.rng.below(100);
        let mut st;
        if r < 55 {
            st = Step::new(Kind::Binop, h as u8);
            // bias towards the operators that write whole words
            st.a = *self.rng.pick(&[0u64, 0, 1, 1, 2, 3, 4, 5, 6, 6, 7, 7]);
            st.form = self.rng.below(4) as u8;
            st.opnd = if self.rng.chance(1, 4) {
                self.uint_operand()
            } else {
                // longer-than-subject operands are where unmasked writes show
                let max = match self.rng.below(3) {
                    0 => n.max(1),
                    1 => (n + 70).min(600),
                    _ => 300,
                };
                self.vec_operand(true, max)
            };
        } else if r < 75 {
            st = Step::new(Kind::Shift, h as u8);
            st.bit = self.rng.bool();
            st.form = self.rng.below(4) as u8;
            st.a = self.rng.below(6);
            let wb = WORD_BITS[self.tids[h] as usize] as u128;
            st.wide = match self.rng.below(8) {
                6 | 7 => wb * (1 + self.rng.below((n as u64 / wb as u64).max(1)) as u128),
                0 => 0,
                1 => n as u128,
                2 => (n as u128).saturating_sub(1),
                3 => self.rng.below(n as u64 + 2) as u128,
                4 => self.rng.below(300) as u128,
                _ => self.rng.u128() >> self.rng.below(128),
            };
        } else if r < 80 {
            st = Step::new(Kind::Not, h as u8);
            st.bit = self.rng.bool();
        } else if r < 86 {
            st = Step::new(if self.rng.bool() { Kind::ShlIn } else { Kind::ShrIn }, h as u8);
            st.bit = self.rng.bool();
        } else if r < 95 {
            st = Step::new(if self.rng.bool() { Kind::Rotl } else { Kind::Rotr }, h as u8);
            st.a = match self.rng.below(5) {
                0 => n as u64,
                1 => 0,
                2 => 64 * self.rng.below((n / 64 + 1) as u64),
                3 => 8 * self.rng.below((n / 8 + 1) as u64),
                _ => self.rng.next(),
            };
        } else {
            st = Step::new(Kind::DivRem, h as u8);
            st.bit = self.rng.bool();
            st.opnd = self.vec_operand(false, n.max(1));
        }
        self.push(st);
    }

    pub fn perturb(&mut self, h: usize) {
        let tid = self.tids[h];
        let n = self.plen[h];
        let growable = FIXED_CAP[tid as usize].is_none();
        let mut opts: Vec<(Kind, u32)> = vec![(Kind::CloneReplace, 2), (Kind::ViaImpl, 5), (Kind::WireTrip, 3), (Kind::RawTrip, 2)];
        if growable {
            opts.push((Kind::Reserve, 8));
            opts.push((Kind::Shrink, 6));
        }
        if tid == TID_BV {
            opts.push((Kind::PromoteDemote, 6));
        }
        let w: Vec<u32> = opts.iter().map(|o| o.1).collect();
        let kind = opts[self.rng.weighted(&w)].0;
        let mut st = Step::new(kind, h as u8);
        st.bit = self.rng.bool();
        st.big = self.rng.bool();
        match kind {
            Kind::Reserve => {
                st.a = match self.rng.below(6) {
                    0 => 0,
                    1 => 1,
                    2 => (64 - n % 64) as u64,
                    3 => (INLINE_LIMIT + 1).saturating_sub(n) as u64,
                    4 => 64 + self.rng.below(200),
                    _ => self.rng.below(1400),
                };
            }
            Kind::PromoteDemote => st.a = self.rng.below(200),
            Kind::ViaImpl => st.a = self.rng.below(NTYPES as u64),
            _ => {}
        }
        self.push(st);
    }

    fn boundary(&mut self, h: usize) -> usize {
        let ml = self.ml(h);
        let w = *self.rng.pick(&[8usize, 64, 128, WORD_BITS[self.tids[h] as usize]]);
        let kmax = (ml / w).max(1);
        (w * (1 + self.rng.below(kmax as u64) as usize)).min(ml)
    }

    fn step_resize(&mut self, h: usize, to: usize, bit: bool) {
        let mut st = Step::new(Kind::Resize, h as u8);
        st.a = to.min(self.ml(h)) as u64;
        st.bit = bit;
        self.plen[h] = st.a as usize;
        self.push(st);
    }

    fn step_simple(&mut self, kind: Kind, h: usize, a: u64, bit: bool) {
        let mut st = Step::new(kind, h as u8);
        st.a = a;
        st.bit = bit;
        self.push(st);
    }

    fn small_growth(&mut self, h: usize) {
        // cross a boundary by small steps that write single bits (push / short extend / shift-in)
        match self.rng.below(3) {
            0 => {
                for _ in 0..1 + self.rng.below(3) {
                    let b = self.rng.bool();
                    self.step_simple(Kind::Push, h, 0, b);
                    self.plen[h] = (self.plen[h] + 1).min(self.ml(h));
                }
            }
            1 => {
                let mut st = Step::new(Kind::Extend, h as u8);
                let k = 1 + self.rng.below(4) as usize;
                st.items = self.bits(k);
                self.plen[h] = (self.plen[h] + k).min(self.ml(h));
                self.push(st);
            }
            _ => {
                let b = self.rng.bool();
                self.step_simple(Kind::Push, h, 0, b);
                self.plen[h] = (self.plen[h] + 1).min(self.ml(h));
                let b2 = self.rng.bool();
                let k = if self.rng.bool() { Kind::ShlIn } else { Kind::ShrIn };
                self.step_simple(k, h, 0, b2);
            }
        }
    }

    fn zero_growth(&mut self, h: usize) {
        let n = self.plen[h];
        let d = *self.rng.pick(&[1usize, 5, 27, 63, 64, 70]);
        match self.rng.below(4) {
            0 | 1 => self.step_resize(h, n + d, false),
            2 => {
                self.step_simple(Kind::SignExtend, h, (n + d).min(self.ml(h)) as u64, false);
                self.plen[h] = (n + d).min(self.ml(h));
            }
            _ => {
                let mut st = Step::new(Kind::Append, h as u8);
                st.opnd = Opnd::Fresh { tid: *self.rng.pick(&OPERAND_TIDS), bits: vec![false; d.min(24)] };
                self.plen[h] = (n + d.min(24)).min(self.ml(h));
                self.push(st);
            }
        }
    }

    /// a short chain of dependent steps on ONE holder: the multi-step shapes that uniform choice rarely lines up
    pub fn motif(&mut self, h: usize) -> usize {
        let start = self.steps.len();
        let growable = FIXED_CAP[self.tids[h] as usize].is_none();
        match self.rng.below(5) {
            0 => {
                // spare capacity, fill with ones up to a boundary, creep across it, then zero-fill growth
                if growable {
                    match self.rng.below(3) {
                        0 => {
                            let a = 64 + self.rng.below(300);
                            self.step_simple(Kind::Reserve, h, a, false)
                        }
                        1 => {
                            let a = *self.rng.pick(&[129u64, 200, 256, 640]);
                            self.step_simple(Kind::WithCapacity, h, a, false);
                            self.plen[h] = 0;
                        }
                        _ => {
                            let b = self.boundary(h);
                            self.step_resize(h, b + 70, true);
                            self.step_simple(Kind::Truncate, h, 3, false);
                            self.plen[h] = 3;
                        }
                    }
                }
                let b = self.boundary(h);
                let off = self.rng.below(3) as usize;
                self.step_resize(h, (b + 1).saturating_sub(off), true);
                self.small_growth(h);
                self.zero_growth(h);
            }
            1 => {
                // shrink exactly to a boundary with ones above it, regrow a little, then zero-fill growth
                let b = self.boundary(h);
                let d = 1 + self.rng.below(70) as usize;
                self.step_resize(h, b + d, true);
                match self.rng.below(3) {
                    0 => self.step_resize(h, b, false),
                    1 => {
                        self.step_simple(Kind::Truncate, h, b as u64, false);
                        self.plen[h] = b.min(self.plen[h]);
                    }
                    _ => {
                        self.step_simple(Kind::SplitOff, h, b as u64, false);
                        self.plen[h] = b.min(self.plen[h]);
                    }
                }
                if self.rng.bool() {
                    self.small_growth(h);
                }
                self.zero_growth(h);
            }
            2 => {
                // pop a One sitting just above a boundary, then zero-fill growth
                let b = self.boundary(h);
                self.step_resize(h, b + 1, true);
                self.step_simple(Kind::Pop, h, 0, false);
                self.plen[h] = self.plen[h].saturating_sub(1);
                self.zero_growth(h);
            }
            3 => {
                // an operand with a history (spare capacity, heap storage) used by another holder
                let o = self.any_holder();
                if FIXED_CAP[self.tids[o] as usize].is_none() {
                    let a = 64 + self.rng.below(400);
                    self.step_simple(Kind::Reserve, o, a, false);
                    if self.rng.bool() {
                        self.step_simple(Kind::Not, o, 0, false);
                    }
                }
                let kind = *self.rng.pick(&[Kind::Append, Kind::Prepend, Kind::Insert, Kind::Binop, Kind::DivRem]);
                let mut st = Step::new(kind, h as u8);
                st.a = self.rng.next();
                st.form = self.rng.below(4) as u8;
                st.bit = self.rng.bool();
                st.opnd = Opnd::Holder { h: o as u8 };
                self.push(st);
            }
            _ => {
                // values with a zero low word and a set high word, ones runs ending at a boundary
                let b = self.boundary(h);
                let f1 = self.rng.bool();
                self.step_resize(h, b, f1);
                let d = 1 + self.rng.below(64) as usize;
                let f2 = self.rng.bool();
                self.step_resize(h, b + d, f2);
                if growable && self.rng.bool() {
                    let a = self.rng.below(100);
                    let f = self.rng.bool();
                    self.step_simple(Kind::PromoteDemote, h, a, f);
                }
            }
        }
        self.steps.len() - start
    }

    pub fn script(&mut self) -> Vec<Dec> {
        let c = self.cfg;
        if !(c.short || c.eintr || c.hard || c.zero) {
            return vec![];
        }
        let len = self.rng.below(7) as usize;
        let mut v = vec![];
        for _ in 0..len {
            let r = self.rng.below(100);
            let d = if r < 35 && c.short {
                Dec::Short(match self.rng.below(3) {
                    0 => 0,
                    _ => self.rng.next() % 1000,
                })
            } else if r < 60 && c.eintr {
                Dec::Eintr
            } else if r < 68 && c.hard {
                Dec::Hard(self.rng.below(5) as u8)
            } else if r < 74 && c.zero {
                Dec::Zero
            } else {
                Dec::Full
            };
            v.push(d);
        }
        v
    }

    pub fn send(&mut self, h: usize, pipe: u64) {
        let mut st = Step::new(Kind::Send, h as u8);
        st.a = pipe;
        st.big = self.rng.bool();
        st.script = self.script();
        // writer-side hard faults break the pipe for good: keep them rarer than reader faults
        if self.rng.chance(2, 3) {
            st.script.retain(|d| !matches!(d, Dec::Hard(_) | Dec::Zero));
        }
        self.push(st);
        if self.cfg.corrupt && self.rng.chance(1, 2) {
            let mut c = Step::new(Kind::Corrupt, 0);
            c.a = pipe;
            c.b = self.rng.next();
            self.push(c);
        }
    }

    pub fn recv(&mut self, h: usize, pipe: u64) {
        let mut st = Step::new(Kind::Recv, h as u8);
        st.a = pipe;
        st.big = self.rng.bool();
        st.script = self.script();
        self.push(st);
    }

    pub fn iter_step(&mut self, h: usize, maxcalls: usize) {
        let mut st = Step::new(Kind::Iter, h as u8);
        st.bit = self.rng.bool();
        let n = self.plen[h];
        let k = 1 + self.rng.below(maxcalls as u64) as usize;
        let mut rem = n;
        for _ in 0..k {
            let code = *self.rng.pick(&[0u8, 0, 0, 1, 1, 2, 2, 2, 3, 3, 3, 4, 4, 5, 6, 7, 8]);
            let arg: u64 = match self.rng.below(12) {
                0 => 0,
                1 => 1,
                2 => 2,
                3 => rem.saturating_sub(1) as u64,
                4 => rem as u64,
                5 => rem as u64 + 1,
                6 => u64::MAX,
                7 => u64::MAX - 1,
                8 => u64::MAX / 2,
                9 => u64::MAX - self.rng.below(n as u64 + 2),
                _ => self.rng.below(n as u64 + 3),
            };
            if code == 2 || code == 3 {
                rem = rem.saturating_sub((arg as usize).saturating_add(1));
            } else if code <= 1 {
                rem = rem.saturating_sub(1);
            } else if code >= 6 {
                rem = n;
            }
            st.calls.push((code, if code == 2 || code == 3 { arg } else { 0 }));
        }
        // after exhaustion: a few more polls of each kind
        if self.rng.chance(1, 2) {
            st.calls.push((2, u64::MAX));
            for _ in 0..1 + self.rng.below(4) {
                st.calls.push((*self.rng.pick(&[0u8, 1, 2, 3, 4]), self.rng.below(3)));
            }
        }
        self.push(st);
    }
}

fn fault_cfg(rng: &mut Rng, fault_free_pct: u64) -> FaultCfg {
    if rng.below(100) < fault_free_pct {
        return FaultCfg::default();
    }
    let mut c = FaultCfg {
        short: rng.chance(2, 3),
        eintr: rng.chance(1, 2),
        hard: rng.chance(1, 3),
        zero: rng.chance(1, 4),
        corrupt: rng.chance(2, 3),
        junk: rng.chance(1, 3),
        trunc: rng.chance(1, 4),
        iter_panic: rng.chance(1, 3),
        iter_hints: rng.chance(3, 4),
        hostile_hint: false,
        perturb: rng.chance(4, 5),
    };
    if !(c.short || c.eintr || c.hard || c.zero || c.corrupt || c.perturb) {
        c.short = true;
    }
    c
}

pub fn prop_index(p: &str) -> u64 {
    p.trim_start_matches('C').parse().unwrap_or(0)
}

pub fn gen(prop: &str, seed: u64, tier: Tier) -> Trace {
    let mut rng = Rng::new(seed);
    let thorough = tier == Tier::Thorough;
    // ---- swarm: roster subset, holders, scale, budget
    let scale = if thorough { *rng.pick(&[24usize, 200, 200, 600, 600, 2048]) } else { *rng.pick(&[24usize, 200, 200, 600]) };
    let nh = match prop {
        "C17" | "C16" => 1 + rng.below(2) as usize,
        _ => 1 + rng.below(4) as usize,
    };
    let subset_n = 1 + rng.below(5) as usize;
    let mut subset: Vec<u8> = (0..subset_n).map(|_| rng.below(NTYPES as u64) as u8).collect();
    match prop {
        "C19" => {
            for t in subset.iter_mut() {
                if *t >= 11 && rng.chance(5, 6) {
                    *t = rng.below(11) as u8;
                }
            }
        }
        "C18" => {
            for t in subset.iter_mut() {
                if rng.chance(7, 10) {
                    *t = if rng.bool() { TID_BVD } else { TID_BV };
                }
            }
        }
        "C10" | "C03" | "C12" => {
            for t in subset.iter_mut() {
                if rng.chance(1, 3) {
                    *t = if rng.bool() { TID_BVD } else { TID_BV };
                }
            }
        }
        _ => {}
    }
    let tids: Vec<u8> = (0..nh).map(|_| *rng.pick(&subset)).collect();
    let budget_max: u64 = if thorough { 120 } else { 40 };
    let budget = if rng.chance(3, 5) { 3 + rng.below(10) } else { 3 + rng.below(budget_max - 2) } as usize;
    let cfg = fault_cfg(&mut rng, 12);
    let mut g = Gen { rng, tids: tids.clone(), plen: vec![0; nh], scale, cfg, steps: vec![] };
    if prop == "C18" && g.rng.chance(1, 3) {
        g.cfg.hostile_hint = true;
    }
    // ---- initial values
    let mut holders = vec![];
    for h in 0..nh {
        let ml = g.ml(h);
        let n = g.len_upto(ml);
        let bits = g.bits(n);
        g.plen[h] = n;
        holders.push(HolderInit { tid: tids[h], bits });
    }
    // ---- steps
    match prop {
        "C13" => gen_c13(&mut g, budget),
        "C17" => gen_c17(&mut g, budget, thorough),
        "C19" => gen_c19(&mut g, budget),
        _ => gen_history(&mut g, budget, prop),
    }
    let battery_every = match prop {
        "C03" => 1,
        _ => 0,
    };
    Trace {
        property: prop.to_string(),
        oracles: vec![prop.to_string()],
        battery_every,
        scale,
        holders,
        steps: g.steps,
        expect: None,
        profile: None,
    }
}

/// histories for the representation-carried properties (C03, C07, C10, C12, C16, C18)
fn gen_history(g: &mut Gen, budget: usize, prop: &str) {
    // weights: edit, workload, perturb, constructor, transfer, battery
    let w: [u32; 6] = match prop {
        "C03" => [25, 38, 16, 7, 9, 5],
        "C07" => [68, 6, 14, 10, 2, 0],
        "C10" => [30, 30, 20, 12, 8, 0],
        "C12" => [30, 30, 22, 12, 6, 0],
        "C16" => [55, 15, 14, 14, 2, 0],
        "C18" => [40, 15, 33, 10, 2, 0],
        _ => [30, 30, 15, 10, 10, 5],
    };
    let prate: u32 = if g.cfg.perturb { w[2] } else { 0 };
    let w = [w[0], w[1], prate, w[3], w[4], w[5]];
    let mut i = 0;
    // multi-step dependencies need consecutive steps on the SAME holder: stay on one for a burst
    let mut h = g.any_holder();
    let stick: u64 = *g.rng.pick(&[0u64, 50, 70, 85]);
    let motif_pct: u64 = *g.rng.pick(&[0u64, 5, 15, 30]);
    while i < budget {
        if !g.rng.chance(stick, 100) {
            h = g.any_holder();
        }
        if prop != "C19" && g.rng.chance(motif_pct, 100) {
            i += g.motif(h);
            continue;
        }
        match g.rng.weighted(&w) {
            0 => g.edit(h, false),
            1 => {
                g.workload(h);
                // perturbations placed right after operations that write whole words
                if g.cfg.perturb && g.rng.chance(1, 4) {
                    g.perturb(h);
                    i += 1;
                }
            }
            2 => {
                g.perturb(h);
                // ... and right before operations that read whole words
                if prop == "C03" && g.rng.chance(1, 3) {
                    g.push(Step::new(Kind::Battery, h as u8));
                    i += 1;
                }
            }
            3 => g.constructor(h, false),
            4 => {
                let pipe = g.rng.below(2);
                g.send(h, pipe);
                let r = g.any_holder();
                g.recv(r, pipe);
                i += 1;
            }
            _ => g.push(Step::new(Kind::Battery, h as u8)),
        }
        i += 1;
    }
}

fn gen_c13(g: &mut Gen, budget: usize) {
    let mut i = 0;
    while i < budget {
        let shape = g.rng.below(10);
        let pipe = g.rng.below(2);
        // the senders' subjects come from histories
        let mut h = g.any_holder();
        for _ in 0..g.rng.below(4) {
            if g.rng.chance(1, 3) {
                h = g.any_holder();
            }
            match g.rng.below(11) {
                10 => {
                    i += g.motif(h);
                }
                0..=4 => g.edit(h, false),
                5..=6 => {
                    let ovf = g.rng.chance(1, 5);
                    g.constructor(h, ovf)
                }
                7 => g.workload(h),
                _ => {
                    if g.cfg.perturb {
                        g.perturb(h)
                    } else {
                        g.edit(h, false)
                    }
                }
            }
            i += 1;
        }
        if shape < 4 {
            // (a) single transfer, preferably of the subject the history above just produced
            let s = if g.rng.chance(2, 3) { h } else { g.any_holder() };
            g.send(s, pipe);
            if g.cfg.junk && g.rng.chance(1, 3) {
                let mut j = Step::new(Kind::Junk, 0);
                j.a = pipe;
                let k = 8 * (1 + g.rng.below(3) as usize);
                j.items = g.bits(k);
                g.push(j);
            }
            let r = g.any_holder();
            g.recv(r, pipe);
            i += 2;
        } else if shape < 8 {
            // (b) framing history: several messages back to back, read in order
            let k = 2 + g.rng.below(5) as usize;
            for j in 0..k {
                let s = if j == 0 && g.rng.chance(1, 2) { h } else { g.any_holder() };
                g.send(s, pipe);
                if g.cfg.junk && g.rng.chance(1, 6) {
                    let mut j = Step::new(Kind::Junk, 0);
                    j.a = pipe;
                    j.items = g.bits(8);
                    g.push(j);
                }
            }
            for _ in 0..k + g.rng.below(2) as usize {
                let r = g.any_holder();
                g.recv(r, pipe);
            }
            i += 2 * k;
        } else {
            // (c) sender crash: complete messages, then a truncated one
            let k = g.rng.below(3) as usize;
            for _ in 0..=k {
                let s = g.any_holder();
                g.send(s, pipe);
            }
            if g.cfg.trunc {
                let mut t = Step::new(Kind::Trunc, 0);
                t.a = pipe;
                t.b = g.rng.next();
                g.push(t);
            }
            for _ in 0..=k {
                let r = g.any_holder();
                g.recv(r, pipe);
            }
            i += 2 * k + 3;
        }
    }
}

fn gen_c17(g: &mut Gen, budget: usize, thorough: bool) {
    let maxcalls = if thorough { 60 } else { 30 };
    for _ in 0..budget.min(12) {
        let h = g.any_holder();
        if g.rng.chance(1, 4) {
            g.edit(h, false);
        }
        g.iter_step(h, maxcalls);
    }
}

fn gen_c19(g: &mut Gen, budget: usize) {
    let mut i = 0;
    while i < budget {
        let h = g.any_holder();
        let ml = g.ml(h);
        // drive the subject to len in {cap-2 .. cap}
        if g.rng.chance(2, 3) {
            let mut st = Step::new(Kind::Resize, h as u8);
            st.a = (ml - (g.rng.below(3) as usize).min(ml)) as u64;
            st.bit = g.rng.bool();
            g.plen[h] = st.a as usize;
            g.push(st);
            i += 1;
        }
        match g.rng.below(10) {
            0..=4 => g.edit(h, true),
            5..=6 => g.constructor(h, true),
            7 => {
                // debug-assertion clause: arguments outside the documented domain
                let mut st = Step::new(Kind::OutOfRange, h as u8);
                st.a = g.rng.below(6);
                st.b = g.rng.next();
                st.bit = g.rng.bool();
                g.push(st);
            }
            8 => {
                // read / TryFrom beyond capacity: a longer vector arrives from another holder
                let pipe = g.rng.below(2);
                let s = g.any_holder();
                g.send(s, pipe);
                g.recv(h, pipe);
                g.push(Step::new(Kind::Convert, s as u8));
                i += 2;
            }
            _ => g.edit(h, false),
        }
        // the survivor stays in the history: later steps act on it
        if g.rng.chance(1, 2) {
            let o = g.rng.bool();
            g.edit(h, o);
            i += 1;
        }
        i += 1;
    }
}
