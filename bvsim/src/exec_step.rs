// included into exec.rs

/// apply one (already reduced) operation to a vector; returns the observable return value
pub fn apply_op<T: Subj>(s: &mut T, st: &Step, r: &Res) -> String {
    match st.kind {
        Kind::Push => {
            s.push(b2bit(st.bit));
            String::new()
        }
        Kind::Pop => format!("{:?}", s.pop().map(bit2b)),
        Kind::Set => {
            s.set(r.x, b2bit(st.bit));
            String::new()
        }
        Kind::Resize => {
            s.resize(r.x, b2bit(st.bit));
            String::new()
        }
        Kind::Truncate => {
            s.truncate(r.x);
            String::new()
        }
        Kind::SignExtend => {
            s.sign_extend(r.x);
            String::new()
        }
        Kind::Append => {
            let o = r.opnd.as_ref().unwrap();
            any!(o, ov => s.append(ov));
            String::new()
        }
        Kind::Prepend => {
            let o = r.opnd.as_ref().unwrap();
            any!(o, ov => s.prepend(ov));
            String::new()
        }
        Kind::Insert => {
            let o = r.opnd.as_ref().unwrap();
            any!(o, ov => s.insert(r.x, ov));
            String::new()
        }
        Kind::SplitOff => {
            let high = s.split_off(r.x);
            let ret = abs_string(&high);
            if st.bit {
                *s = high;
            }
            ret
        }
        Kind::Split => {
            let (high, low) = s.clone().split(r.x);
            let ret = format!("{}|{}", abs_string(&high), abs_string(&low));
            *s = if st.bit { high } else { low };
            ret
        }
        Kind::CopyRange => {
            let c = s.copy_range(r.x..r.y);
            *s = c;
            String::new()
        }
        Kind::Extend => {
            let it = SimIter::new(&r.items, st.form % 9, st.b, !st.bit, r.panic_after);
            s.extend(it);
            String::new()
        }
        Kind::Collect => {
            let it = SimIter::new(&r.items, st.form % 9, st.b, !st.bit, r.panic_after);
            *s = T::from_iter(it);
            String::new()
        }
        Kind::Zeros => {
            *s = T::zeros(r.x);
            String::new()
        }
        Kind::Ones => {
            *s = T::ones(r.x);
            String::new()
        }
        Kind::Repeat => {
            *s = T::repeat(b2bit(st.bit), r.x);
            String::new()
        }
        Kind::WithCapacity => {
            *s = T::with_capacity(r.x);
            String::new()
        }
        Kind::FromBytes => match T::from_bytes(&r.bytes, end(st.big)) {
            Ok(v) => {
                *s = v;
                "Ok".into()
            }
            Err(e) => format!("Err({:?})", e),
        },
        Kind::FromBinary => match T::from_binary(&r.text) {
            Ok(v) => {
                *s = v;
                "Ok".into()
            }
            Err(e) => format!("Err({:?})", e),
        },
        Kind::FromHex => match T::from_hex(&r.text) {
            Ok(v) => {
                *s = v;
                "Ok".into()
            }
            Err(e) => format!("Err({:?})", e),
        },
        Kind::FromUint => match T::from_uint((st.a % 6) as u8, uint_mask((st.a % 6) as u8, st.wide)) {
            Ok(v) => {
                *s = v;
                "Ok".into()
            }
            Err(e) => format!("Err({:?})", e),
        },
        Kind::FromSlice => {
            let w = (st.a % 6) as u8;
            let wb = uint_bits(w);
            let vals: Vec<u128> = r.items.chunks(wb).map(|c| c.iter().enumerate().fold(0u128, |acc, (i, b)| acc | ((*b as u128) << i))).collect();
            match T::from_slice(w, &vals) {
                Ok(v) => {
                    *s = v;
                    "Ok".into()
                }
                Err(e) => format!("Err({:?})", e),
            }
        }
        Kind::Binop => {
            s.binop((st.a % 8) as u8, st.form % 4, r.rhs.as_ref().unwrap());
            String::new()
        }
        Kind::Shift => {
            s.shift(st.bit, st.form % 4, (st.a % 6) as u8, st.wide);
            String::new()
        }
        Kind::Not => {
            s.not_(st.bit);
            String::new()
        }
        Kind::ShlIn => format!("{:?}", bit2b(s.shl_in(b2bit(st.bit)))),
        Kind::ShrIn => format!("{:?}", bit2b(s.shr_in(b2bit(st.bit)))),
        Kind::Rotl => {
            s.rotl(r.x);
            String::new()
        }
        Kind::Rotr => {
            s.rotr(r.x);
            String::new()
        }
        Kind::DivRem => {
            let (q, rem) = s.div_rem_any(r.opnd.as_ref().unwrap());
            let ret = format!("{}|{}", abs_string(&q), abs_string(&rem));
            *s = if st.bit { q } else { rem };
            ret
        }
        Kind::Reserve => {
            s.reserve_(r.x);
            String::new()
        }
        Kind::Shrink => {
            s.shrink_();
            String::new()
        }
        Kind::CloneReplace => {
            let c = s.clone();
            *s = c;
            String::new()
        }
        Kind::PromoteDemote => {
            s.reserve_(r.x);
            if st.bit {
                s.shrink_();
            }
            String::new()
        }
        Kind::ViaImpl => {
            let via = s.convert(r.x as u8, st.bit).or_else(|| s.convert(r.x as u8, false)).unwrap();
            match via {
                Ok(mid) => {
                    let back = any!(&mid, m => m.convert(T::TID, st.bit).or_else(|| m.convert(T::TID, false)).unwrap());
                    match back {
                        Ok(bk) => {
                            *s = unwrap_as::<T>(bk);
                            "Ok".into()
                        }
                        Err(e) => format!("BackErr({:?})", e),
                    }
                }
                Err(e) => format!("Err({:?})", e),
            }
        }
        Kind::WireTrip => {
            let mut sink: Vec<u8> = vec![];
            let w = s.write(&mut sink, end(st.big));
            let n = s.len();
            let mut cur = std::io::Cursor::new(sink);
            match T::read(&mut cur, n, end(st.big)) {
                Ok(v) => {
                    *s = v;
                    format!("w={} consumed={}", w.is_ok(), cur.position())
                }
                Err(e) => format!("w={} Err({:?})", w.is_ok(), e.kind()),
            }
        }
        Kind::RawTrip => {
            if let Some(v) = s.raw_roundtrip() {
                *s = v;
            }
            String::new()
        }
        _ => panic!("harness: apply_op on non-operation kind {:?}", st.kind),
    }
}

fn unwrap_as<T: Subj>(a: AnyBv) -> T {
    let b: Box<dyn std::any::Any> = any!(a, v => Box::new(v) as Box<dyn std::any::Any>);
    *b.downcast::<T>().expect("harness: conversion returned an unexpected type")
}

impl<'t> Exec<'t> {
    pub fn new(trace: &'t Trace, dbg: bool, want_log: bool) -> Exec<'t> {
        let mut mask = Mask::default();
        for o in &trace.oracles {
            match o.as_str() {
                "C03" => mask.c03 = true,
                "C07" => mask.c07 = true,
                "C10" => mask.c10 = true,
                "C12" => mask.c12 = true,
                "C13" => mask.c13 = true,
                "C16" => mask.c16 = true,
                "C17" => mask.c17 = true,
                "C18" => mask.c18 = true,
                "C19" => mask.c19 = true,
                _ => {}
            }
        }
        let holders = trace
            .holders
            .iter()
            .map(|hi| {
                let ml = maxlen(hi.tid, MAXLEN_GROW);
                let bits: Bits = hi.bits.iter().copied().take(ml).collect();
                Holder { subj: fresh_any(hi.tid, &bits), model: bits, tainted: false }
            })
            .collect();
        Exec {
            trace,
            dbg,
            holders,
            pipes: vec![Pipe::default(), Pipe::default()],
            out: Outcome::default(),
            mask,
            step_idx: 0,
            log: if want_log { Some(vec![]) } else { None },
            own: trace.property.clone(),
        }
    }

    pub fn bump(&mut self, k: &'static str) {
        *self.out.stats.entry(k).or_insert(0) += 1;
    }
    pub fn bump_by(&mut self, k: &'static str, n: u64) {
        if n > 0 {
            *self.out.stats.entry(k).or_insert(0) += n;
        }
    }
    fn logf(&mut self, f: impl FnOnce() -> String) {
        if let Some(l) = self.log.as_mut() {
            l.push(f());
        }
    }

    pub fn report(&mut self, props: &[&'static str], oracle: &str, h: usize, kind: &str, msg: String) {
        let own = self.own.clone();
        if props.iter().any(|p| *p == own) {
            if self.out.violation.is_none() {
                let tid = self.holders[h].subj.tid();
                self.out.violation = Some(Violation {
                    props: props.to_vec(),
                    oracle: oracle.to_string(),
                    kind: kind.to_string(),
                    tclass: type_class(tid).to_string(),
                    tname: TYPE_NAMES[tid as usize].to_string(),
                    step: self.step_idx,
                    msg,
                });
            }
        } else {
            for p in props {
                *self.out.foreign.entry(p.to_string()).or_insert(0) += 1;
            }
        }
    }

    fn evaluated(&mut self, prop: &str) {
        if prop == self.own {
            self.out.oracle_evals += 1;
        }
    }

    pub fn run(mut self) -> (Outcome, Option<Vec<String>>) {
        let steps = self.trace.steps.clone();
        for (i, st) in steps.iter().enumerate() {
            self.step_idx = i;
            let r = guard(|| self.step(st));
            if let Err(p) = r {
                self.out.harness_error = Some(format!("harness panic at step {} ({}): {}", i, st.kind.name(), p));
                break;
            }
            self.out.steps_run = i + 1;
            if self.out.violation.is_some() || self.out.harness_error.is_some() || self.halted() {
                break;
            }
        }
        if self.out.violation.is_none() && self.out.harness_error.is_none() && !self.halted() {
            self.step_idx = steps.len();
            let r = guard(|| self.final_checks());
            if let Err(p) = r {
                self.out.harness_error = Some(format!("harness panic in final checks: {}", p));
            }
        }
        let log = self.log.take();
        (self.out, log)
    }

    fn halted(&self) -> bool {
        self.out.stats.get("halt_overlong_foreign").copied().unwrap_or(0) > 0
    }

    fn final_checks(&mut self) {
        for h in 0..self.holders.len() {
            if self.mask.c03 && !self.holders[h].tainted {
                self.run_battery(h, true, "final");
            } else if self.mask.c18 && !self.holders[h].tainted && self.cap_state(h) {
                self.run_battery(h, false, "final");
            }
        }
        if self.mask.c13 {
            self.final_pipe_checks();
        }
    }

    fn operand(&self, st: &Step) -> Option<(AnyBv, Bits)> {
        match &st.opnd {
            Opnd::Fresh { tid, bits } => {
                let ml = maxlen(*tid, MAXLEN_GROW);
                let b: Bits = bits.iter().copied().take(ml).collect();
                Some((fresh_any(*tid, &b), b))
            }
            Opnd::Holder { h } => {
                let hh = (*h as usize) % self.holders.len();
                Some((self.holders[hh].subj.clone(), self.holders[hh].model.clone()))
            }
            _ => None,
        }
    }

    /// reduce the raw arguments of a step against the holder's current state and compute what
    /// the list model says about the result
    fn resolve(&mut self, st: &Step, h: usize) -> Res {
        let tid = self.holders[h].subj.tid();
        let m = self.holders[h].model.clone();
        let n = m.len();
        let scale = self.trace.scale.max(8);
        let ml = maxlen(tid, scale);
        let fixed = FIXED_CAP[tid as usize].is_some();
        let mut r = Res::default();
        // how far beyond the limit an overflowing step may reach
        let over = |raw: u64| -> usize {
            if st.ovf && fixed && st.b == u64::MAX {
                // lengths at the very top of usize: capacity arithmetic must not wrap (fixed types only:
                // a growable type would try to allocate)
                usize::MAX - (raw as usize) % 200
            } else if st.ovf && fixed {
                (raw as usize) % (ml + 140)
            } else {
                (raw as usize) % (ml + 1)
            }
        };
        let room = |len: usize| -> usize {
            if st.ovf && fixed {
                usize::MAX
            } else {
                ml.saturating_sub(len)
            }
        };
        match st.kind {
            Kind::Push => {
                if room(n) == 0 {
                    r.skip = true;
                } else {
                    let mut e = m.clone();
                    e.push(st.bit);
                    r.expect = Some(e);
                }
            }
            Kind::Pop => {
                let mut e = m.clone();
                r.expect_ret = Some(format!("{:?}", e.pop()));
                r.expect = Some(e);
            }
            Kind::Set => {
                if n == 0 {
                    r.skip = true;
                } else {
                    r.x = (st.a as usize) % n;
                    let mut e = m.clone();
                    e[r.x] = st.bit;
                    r.expect = Some(e);
                }
            }
            Kind::Resize => {
                r.x = over(st.a);
                if r.x > MAXLEN_GROW + 4096 {
                    r.want_len = Some(r.x); // far beyond any capacity: no model list is built
                } else {
                    let mut e = m.clone();
                    model::resize(&mut e, r.x, st.bit);
                    r.expect = Some(e);
                }
            }
            Kind::Truncate => {
                r.x = (st.a as usize) % (n + 3);
                let mut e = m.clone();
                model::truncate(&mut e, r.x);
                r.expect = Some(e);
            }
            Kind::SignExtend => {
                r.x = over(st.a);
                if r.x > MAXLEN_GROW + 4096 {
                    r.want_len = Some(r.x);
                } else {
                    let mut e = m.clone();
                    model::sign_extend(&mut e, r.x);
                    r.expect = Some(e);
                }
            }
            Kind::Append | Kind::Prepend | Kind::Insert => {
                let (mut o, mut ob) = match self.operand(st) {
                    Some(x) => x,
                    None => {
                        let b: Bits = st.items.clone();
                        (fresh_any(TID_BVD, &b), b)
                    }
                };
                let rm = room(n);
                if ob.len() > rm {
                    ob.truncate(rm);
                    o = fresh_any(o.tid(), &ob);
                    self.bump("operand_clamped");
                }
                r.x = (st.a as usize) % (n + 1);
                let mut e = m.clone();
                match st.kind {
                    Kind::Append => model::append(&mut e, &ob),
                    Kind::Prepend => model::prepend(&mut e, &ob),
                    _ => model::insert(&mut e, r.x, &ob),
                }
                if ob.is_empty() {
                    self.bump("probe_empty_operand");
                }
                if o.tid() != tid {
                    self.bump("probe_operand_other_impl");
                }
                r.expect = Some(e);
                r.opnd = Some(o);
                r.opnd_bits = ob;
            }
            Kind::SplitOff | Kind::Split => {
                r.x = (st.a as usize) % (n + 1);
                let mut low = m.clone();
                let high = model::split_off(&mut low, r.x);
                r.expect_ret = Some(if st.kind == Kind::SplitOff {
                    format!("{}:{}", high.len(), model::bits_to_string(&high))
                } else {
                    format!("{}:{}|{}:{}", high.len(), model::bits_to_string(&high), low.len(), model::bits_to_string(&low))
                });
                r.expect = Some(if st.bit { high } else { low });
            }
            Kind::CopyRange => {
                r.x = (st.a as usize) % (n + 1);
                r.y = r.x + (st.b as usize) % (n - r.x + 1);
                r.expect = Some(m[r.x..r.y].to_vec());
            }
            Kind::Extend | Kind::Collect => {
                let base = if st.kind == Kind::Extend { n } else { 0 };
                let mut items = st.items.clone();
                let rm = room(base);
                if items.len() > rm {
                    items.truncate(rm);
                }
                r.panic_after = if st.a == 0 { None } else { Some(((st.a - 1) as usize) % (items.len() + 1)) };
                if st.form % 9 == 5 || st.form % 9 == 8 {
                    // an iterator that lies about its lower bound breaks its own contract: invariants only
                    r.want_len = Some(base + items.len());
                } else if r.panic_after.is_none() {
                    let mut e = if st.kind == Kind::Extend { m.clone() } else { vec![] };
                    e.extend_from_slice(&items);
                    r.expect = Some(e);
                } else {
                    r.want_len = Some(base + r.panic_after.unwrap());
                }
                r.items = items;
            }
            Kind::Zeros | Kind::Ones | Kind::Repeat => {
                r.x = over(st.a);
                let fill = match st.kind {
                    Kind::Zeros => false,
                    Kind::Ones => true,
                    _ => st.bit,
                };
                if r.x > MAXLEN_GROW + 4096 {
                    r.want_len = Some(r.x);
                } else {
                    r.expect = Some(vec![fill; r.x]);
                }
            }
            Kind::WithCapacity => {
                r.x = (st.a as usize) % 1200;
                r.expect = Some(vec![]);
            }
            Kind::FromBytes => {
                let mut items = st.items.clone();
                let rm = room(0);
                if items.len() > rm {
                    items.truncate(rm);
                }
                r.bytes = pack_bytes(&items);
                r.expect = Some(model::dec(&r.bytes, r.bytes.len() * 8, st.big));
            }
            Kind::FromBinary => {
                let mut items = st.items.clone();
                let rm = room(0);
                if items.len() > rm {
                    items.truncate(rm);
                }
                r.text = items.iter().rev().map(|b| if *b { '1' } else { '0' }).collect();
                r.expect = Some(items);
            }
            Kind::FromHex => {
                let mut items = st.items.clone();
                let rm = room(0);
                if items.len() > rm {
                    items.truncate(rm);
                }
                let k = items.len() / 4 * 4;
                items.truncate(k);
                let digits: Vec<char> = (0..k / 4)
                    .map(|j| {
                        let v = (0..4).fold(0u32, |acc, t| acc | ((items[j * 4 + t] as u32) << t));
                        let c = std::char::from_digit(v, 16).unwrap();
                        if st.bit {
                            c.to_ascii_uppercase()
                        } else {
                            c
                        }
                    })
                    .collect();
                r.text = digits.iter().rev().collect();
                r.expect = Some(items);
            }
            Kind::FromSlice => {
                let wb = uint_bits((st.a % 6) as u8);
                let mut items = st.items.clone();
                let rm = room(0);
                if items.len() > rm {
                    items.truncate(rm);
                }
                let k = items.len() / wb * wb;
                items.truncate(k);
                r.want_len = Some(k);
                r.items = items;
            }
            Kind::FromUint => {
                let w = (st.a % 6) as u8;
                let val = uint_mask(w, st.wide);
                let sig = 128 - val.leading_zeros() as usize;
                r.want_len = Some(if fixed { sig } else { 0 });
            }
            Kind::Binop => {
                r.rhs = Some(match &st.opnd {
                    Opnd::Uint { w, val } => Rhs::U(*w % 6, uint_mask(*w % 6, *val)),
                    Opnd::None => Rhs::U(3, st.wide as u64 as u128),
                    _ => {
                        let (o, ob) = self.operand(st).unwrap();
                        if ob.len() > n {
                            self.bump("probe_rhs_longer_than_lhs");
                        }
                        if ob.len() > self.holders[h].subj.capacity() {
                            self.bump("probe_rhs_longer_than_capacity");
                        }
                        Rhs::V(as_operand(&o))
                    }
                });
            }
            Kind::DivRem => match self.operand(st) {
                Some((o, _)) => r.opnd = Some(o),
                None => r.skip = true,
            },
            Kind::Rotl | Kind::Rotr => {
                r.x = (st.a as usize) % (n + 1);
            }
            Kind::Reserve => {
                if fixed {
                    r.skip = true;
                }
                r.x = (st.a as usize) % 1500;
            }
            Kind::Shrink | Kind::RawTrip => {
                if fixed && st.kind == Kind::Shrink {
                    r.skip = true;
                }
                if tid == TID_BV && st.kind == Kind::RawTrip {
                    r.skip = true;
                }
            }
            Kind::PromoteDemote => {
                if tid != TID_BV {
                    r.skip = true;
                }
                r.x = (INLINE_LIMIT + 1).saturating_sub(n) + (st.a as usize) % 200;
            }
            Kind::ViaImpl => {
                let via = (st.a % NTYPES as u64) as u8;
                r.x = via as usize;
                if n > maxlen(via, usize::MAX) {
                    r.skip = true;
                }
            }
            _ => {}
        }
        if let Some(e) = &r.expect {
            r.want_len = Some(e.len());
        }
        r
    }

    /// invariant needed before any indexed read: len <= capacity. Returns false when violated.
    fn check_len_cap(&mut self, h: usize, kind: &str, after_panic: bool) -> bool {
        let (l, c) = (self.holders[h].subj.len(), self.holders[h].subj.capacity());
        self.evaluated("C18");
        self.evaluated("C19");
        if l > c {
            let fixed = FIXED_CAP[self.holders[h].subj.tid() as usize].is_some();
            let props: &[&'static str] = if fixed { &["C19", "C18"] } else { &["C18"] };
            let oracle = if after_panic { "survivor.len<=capacity" } else { "len<=capacity" };
            self.report(props, oracle, h, kind, format!("len {} > capacity {} after {}", l, c, kind));
            if self.out.violation.is_none() {
                // foreign: this run cannot safely continue with an over-long vector
                self.bump("halt_overlong_foreign");
            }
            return false;
        }
        true
    }

    pub fn step(&mut self, st: &Step) {
        let h = (st.h as usize) % self.holders.len();
        self.bump("steps");
        match st.kind {
            Kind::Send => return self.do_send(st, h),
            Kind::Recv => return self.do_recv(st, h),
            Kind::Corrupt => return self.do_corrupt(st),
            Kind::Junk => return self.do_junk(st),
            Kind::Trunc => return self.do_trunc(st),
            Kind::Iter => return self.do_iter(st, h),
            Kind::Hash => {
                self.rider_hash(h);
                return;
            }
            Kind::Battery => {
                if self.mask.c03 && !self.holders[h].tainted {
                    self.run_battery(h, true, "battery");
                }
                return;
            }
            Kind::Convert => {
                let all = self.mask.c12;
                self.rider_convert(h, all);
                return;
            }
            Kind::Counts => {
                self.rider_counts(h);
                return;
            }
            Kind::OutOfRange => return self.do_out_of_range(st, h),
            _ => {}
        }
        let res = self.resolve(st, h);
        if res.skip {
            self.bump("skipped_steps");
            return;
        }
        let kind = st.kind;
        let kname = if kind == Kind::Binop {
            ["add", "sub", "mul", "div", "rem", "bitand", "bitor", "bitxor"][(st.a % 8) as usize]
        } else {
            kind.name()
        };
        let tid = self.holders[h].subj.tid();
        let fixed_cap = FIXED_CAP[tid as usize];
        let before = self.holders[h].model.clone();
        let was_tainted = self.holders[h].tainted;
        let cap_before = self.holders[h].subj.capacity();
        let heap_before = any!(&self.holders[h].subj, v => v.probe().heap);
        // twin: a freshly constructed vector with the same length and bits
        // capacity state that a freshly constructed vector would not have (spare words, heap-stored short Bv)
        let cap_pre = self.cap_state(h);
        let use_twin = (self.mask.c03 || self.mask.c18) && !was_tainted && !is_constructor(kind);
        let mut twin: Option<AnyBv> = if use_twin { Some(fresh_any(tid, &before)) } else { None };
        let mut subj = std::mem::replace(&mut self.holders[h].subj, fresh_any(0, &[]));
        let out_s = any!(&mut subj, s => guard(|| apply_op(s, st, &res)));
        self.holders[h].subj = subj;
        let out_t = twin.as_mut().map(|t| any!(t, s => guard(|| apply_op(s, st, &res))));
        let si = self.step_idx;
        self.logf(|| format!("step {} {} h={} -> {:?}", si, kname, h, out_s));

        let panicked = out_s.is_err();
        let injected = out_s.as_ref().err().map(|m| is_injected(m)).unwrap_or(false);
        if panicked {
            self.bump(if injected { "panic_injected_iter" } else { "panic_bva" });
            self.out.nontrivial = true;
        }
        if is_perturb(kind) {
            self.bump("perturbations");
            self.out.nontrivial = true;
        }

        // ---- C19 / C18: the state that survives, in either case
        if !self.check_len_cap(h, kname, panicked) {
            return;
        }
        let actual = any!(&self.holders[h].subj, v => abs(v));

        // ---- overflow expectations on fixed types (C19)
        let overflow = match (fixed_cap, res.want_len) {
            (Some(c), Some(w)) => w > c,
            _ => false,
        };
        if overflow {
            self.bump("c19_overflow_attempts");
            self.out.nontrivial = true;
            if before.len() + 1 >= fixed_cap.unwrap() {
                self.bump("probe_grow_at_cap");
            }
            self.evaluated("C19");
            if c19_must_panic(kind) && !panicked {
                self.report(
                    &["C19"],
                    "overflow-must-panic",
                    h,
                    kname,
                    format!("{} to length {} on capacity {} returned normally (len now {})", kname, res.want_len.unwrap(), fixed_cap.unwrap(), actual.len()),
                );
            }
            if c19_must_err(kind) {
                let ok = matches!(&out_s, Ok(s) if s.starts_with("Err("));
                if kind == Kind::FromBytes {
                    self.evaluated("C13");
                }
                if !ok {
                    self.report(
                        if kind == Kind::FromBytes { &["C19", "C13"] } else { &["C19"] },
                        "overflow-must-err",
                        h,
                        kname,
                        format!("{} beyond capacity {}: expected Err, got {:?}", kname, fixed_cap.unwrap(), out_s),
                    );
                }
            }
        }

        // ---- twin differential (C03)
        if let (Some(t), Some(ot)) = (&twin, &out_t) {
            self.evaluated("C03");
            // C18: "capacity management never changes the value": a difference from the fresh twin on a
            // subject whose capacity state is not the fresh one is also a C18 observation
            let cap_now = cap_pre || self.cap_state(h);
            if cap_now {
                self.evaluated("C18");
                self.bump("c18_twin_steps_with_capacity_state");
            }
            let c03: &[&'static str] = if cap_now { &["C03", "C18"] } else { &["C03"] };
            match (&out_s, ot) {
                (Ok(a), Ok(b)) => {
                    let ta = abs_string_any(t);
                    let sa = format!("{}:{}", actual.len(), model::bits_to_string(&actual));
                    if a != b {
                        self.report(c03, "twin.return", h, kname, format!("return value differs from twin: subject {:?} twin {:?}", a, b));
                    } else if ta != sa {
                        self.report(c03, "twin.result", h, kname, format!("result differs from twin: subject {} twin {}", sa, ta));
                    }
                }
                (Err(a), Ok(_)) => self.report(c03, "twin.panic", h, kname, format!("subject panicked ({}) but its fresh twin did not", a)),
                (Ok(_), Err(b)) => self.report(c03, "twin.panic", h, kname, format!("fresh twin panicked ({}) but the subject did not", b)),
                (Err(_), Err(_)) => {}
            }
        }

        // ---- list model (C07) and capacity contract (C18)
        let growable = fixed_cap.is_none();
        if panicked && !injected {
            if is_edit(kind) && !overflow {
                self.evaluated("C07");
                self.report(&["C07"], "edit.panic", h, kname, format!("{} within capacity panicked: {}", kname, out_s.as_ref().err().unwrap()));
                if growable && res.want_len.map(|w| w > before.len()).unwrap_or(false) {
                    self.evaluated("C18");
                    self.report(&["C18"], "grow.panic", h, kname, format!("growth edit {} on a growable vector panicked: {}", kname, out_s.as_ref().err().unwrap()));
                }
            }
            if kind == Kind::FromBytes && !overflow {
                self.evaluated("C13");
                self.report(&["C13"], "from_bytes.panic", h, kname, format!("from_bytes of {} bytes within capacity panicked: {}", res.bytes.len(), out_s.as_ref().err().unwrap()));
            }
            if is_perturb(kind) {
                let props: &[&'static str] = match kind {
                    Kind::Reserve | Kind::Shrink | Kind::PromoteDemote => &["C18"],
                    Kind::ViaImpl | Kind::RawTrip => &["C12"],
                    Kind::WireTrip => &["C13"],
                    _ => &["C03"],
                };
                self.report(props, "perturb.panic", h, kname, format!("{} panicked: {}", kname, out_s.as_ref().err().unwrap()));
            }
            self.holders[h].tainted = true;
            self.holders[h].model = actual;
            return;
        }
        if panicked && injected {
            // the caller's own iterator panicked after k items: every completed push is a completed
            // public operation; the survivor is re-read and stays under all oracles
            self.bump("survivor_observed");
            if kind == Kind::Extend {
                self.evaluated("C07");
                let mut e = before.clone();
                e.extend_from_slice(&res.items[..res.panic_after.unwrap_or(0).min(res.items.len())]);
                if actual.len() > e.len() || actual[..] != e[..actual.len()] {
                    self.report(&["C07"], "extend.partial", h, kname, format!("after the iterator panicked the vector is not a prefix-extension: got {} want a prefix of {}", model::bits_to_string(&actual), model::bits_to_string(&e)));
                }
            }
            self.holders[h].model = actual;
            self.after_step(h, kind, kname);
            return;
        }
        // returned normally
        let ret = out_s.as_ref().ok().cloned().unwrap_or_default();
        if is_constructor(kind) && !ret.starts_with("Err(") {
            self.holders[h].tainted = false;
        }
        if overflow {
            // whatever happened was judged above; resync
            self.holders[h].model = actual;
            self.after_step(h, kind, kname);
            return;
        }
        if let Some(e) = &res.expect {
            let judged: &[&'static str] = if is_edit(kind) {
                &["C07"]
            } else if matches!(kind, Kind::FromBytes) {
                &["C13"]
            } else {
                &[]
            };
            let errd = ret.starts_with("Err(");
            if !judged.is_empty() {
                self.evaluated(judged[0]);
                if errd {
                    self.report(judged, "model.err", h, kname, format!("{} within capacity returned {}", kname, ret));
                } else if *e != actual {
                    self.report(
                        judged,
                        "model.result",
                        h,
                        kname,
                        format!("{}: vector is {}:{} but the list model says {}:{}", kname, actual.len(), model::bits_to_string(&actual), e.len(), model::bits_to_string(e)),
                    );
                } else if let Some(er) = &res.expect_ret {
                    if *er != ret {
                        self.report(judged, "model.return", h, kname, format!("{} returned {} but the list model says {}", kname, ret, er));
                    }
                }
                if growable && e.len() > before.len() {
                    self.evaluated("C18");
                    if actual.len() != e.len() {
                        self.report(&["C18"], "grow.length", h, kname, format!("growth edit {} reached length {} instead of {}", kname, actual.len(), e.len()));
                    }
                }
            } else if *e != actual && !errd {
                // constructors the model has no claimed opinion on (zeros/ones/repeat/parsers): resync
                self.bump("unjudged_model_mismatch");
            }
        }
        // perturbations: value must be unchanged; capacity contract
        if is_perturb(kind) {
            let props: &[&'static str] = match kind {
                Kind::Reserve | Kind::Shrink | Kind::PromoteDemote => &["C18"],
                Kind::ViaImpl | Kind::RawTrip => &["C12"],
                Kind::WireTrip => &["C13"],
                _ => &["C03"],
            };
            self.evaluated(props[0]);
            if actual != before {
                self.report(
                    props,
                    "perturb.value",
                    h,
                    kname,
                    format!("{} changed the value: before {}:{} after {}:{}", kname, before.len(), model::bits_to_string(&before), actual.len(), model::bits_to_string(&actual)),
                );
            }
            if ret.starts_with("Err(") || ret.starts_with("BackErr(") || ret.contains("w=false") {
                self.report(props, "perturb.err", h, kname, format!("{} failed: {}", kname, ret));
            }
            if kind == Kind::WireTrip && !ret.contains(&format!("consumed={}", (before.len() + 7) / 8)) {
                self.report(&["C13"], "wire.consumed", h, kname, format!("wire round trip of {} bits: {}", before.len(), ret));
            }
            let cap_after = self.holders[h].subj.capacity();
            match kind {
                Kind::Reserve => {
                    if cap_after < before.len() + res.x {
                        self.report(&["C18"], "reserve.capacity", h, kname, format!("reserve({}) on len {} left capacity {}", res.x, before.len(), cap_after));
                    }
                    if cap_after > cap_before {
                        self.bump("probe_capacity_grew");
                    }
                }
                Kind::Shrink | Kind::PromoteDemote if kind == Kind::Shrink || st.bit => {
                    let fresh_cap = fresh_any(tid, &vec![false; before.len()]).capacity();
                    if cap_after > fresh_cap {
                        self.report(&["C18"], "shrink.capacity", h, kname, format!("shrink_to_fit on len {} left capacity {} > fresh capacity {}", before.len(), cap_after, fresh_cap));
                    }
                    if cap_after < cap_before {
                        self.bump("probe_capacity_shrank");
                    }
                }
                _ => {}
            }
        }
        if kind == Kind::WithCapacity {
            self.evaluated("C18");
            let cap_after = self.holders[h].subj.capacity();
            if growable && (cap_after < res.x || !actual.is_empty()) {
                self.report(&["C18"], "with_capacity", h, kname, format!("with_capacity({}) gave len {} capacity {}", res.x, actual.len(), cap_after));
            }
        }
        let heap_after = any!(&self.holders[h].subj, v => v.probe().heap);
        if heap_after && !heap_before {
            self.bump("probe_bv_promoted");
        }
        if !heap_after && heap_before {
            self.bump("probe_bv_demoted");
        }
        if before.len() <= INLINE_LIMIT && actual.len() > INLINE_LIMIT {
            self.bump("probe_crossed_inline_up");
        }
        if before.len() > INLINE_LIMIT && actual.len() <= INLINE_LIMIT {
            self.bump("probe_crossed_inline_down");
        }
        if before.len() / 64 != actual.len() / 64 {
            self.bump("probe_crossed_word_boundary");
        }
        self.holders[h].model = actual;
        self.after_step(h, kind, kname);
    }

    /// riders evaluated on the touched holder after every completed step
    fn after_step(&mut self, h: usize, _kind: Kind, kname: &str) {
        if self.out.violation.is_some() {
            return;
        }
        self.note_state(h);
        if self.mask.c03 && !self.holders[h].tainted {
            let every = self.trace.battery_every.max(1) as usize;
            if self.step_idx % every == 0 {
                let heavy = self.step_idx % (every * 4) == 0;
                self.run_battery(h, heavy, kname);
            }
        }
        if self.mask.c18 && !self.mask.c03 && !self.holders[h].tainted && self.cap_state(h) {
            if is_perturb(_kind) || self.step_idx % 8 == 0 {
                self.run_battery(h, false, kname);
            } else {
                self.light_check(h, kname);
            }
        }
        if self.mask.c16 {
            self.rider_counts(h);
        }
        if self.mask.c12 {
            self.rider_convert(h, false);
        }
        if self.mask.c10 {
            self.rider_hash(h);
        }
    }

    fn note_state(&mut self, h: usize) {
        let p = any!(&self.holders[h].subj, v => v.probe());
        let tid = self.holders[h].subj.tid() as u32;
        let n = self.holders[h].model.len();
        let wb = WORD_BITS[tid as usize];
        let lenclass = if n == 0 { 0 } else if n % wb == 0 { 1 } else if n % 8 == 0 { 2 } else { 3 } as u32 + 4 * ((n / wb).min(7) as u32);
        let rep = (p.dirty_pad as u32) | ((p.dirty_spare as u32) << 1) | (((p.spare_words > 0) as u32) << 2) | ((p.heap as u32) << 3) | ((self.holders[h].tainted as u32) << 4);
        let code = tid | (lenclass << 4) | (rep << 10);
        if !self.out.states.contains(&code) {
            self.out.states.push(code);
        }
        if p.dirty_pad {
            self.bump("probe_dirty_padding_reached");
        }
        if p.dirty_spare {
            self.bump("probe_dirty_spare_reached");
        }
        if p.spare_words > 0 {
            self.bump("probe_spare_words");
        }
        if p.heap && n <= INLINE_LIMIT {
            self.bump("probe_bv_heap_short");
        }
    }

    /// does the subject hold capacity state a freshly constructed vector of the same length would not have?
    fn cap_state(&self, h: usize) -> bool {
        let tid = self.holders[h].subj.tid();
        if FIXED_CAP[tid as usize].is_some() {
            return false;
        }
        let l = self.holders[h].subj.len();
        if l > self.holders[h].subj.capacity() {
            return false;
        }
        let fresh_cap = fresh_any(tid, &vec![false; l]).capacity();
        let p = any!(&self.holders[h].subj, v => v.probe());
        self.holders[h].subj.capacity() != fresh_cap || (tid == TID_BV && p.heap && l <= INLINE_LIMIT)
    }

    /// cheap subset of the battery: the observers that read whole storage words
    fn light_check(&mut self, h: usize, kname: &str) {
        let tid = self.holders[h].subj.tid();
        let bits = self.holders[h].model.clone();
        let twin = fresh_any(tid, &bits);
        self.evaluated("C18");
        self.bump("c18_light_checks");
        let obs = |a: &AnyBv, other: &AnyBv| -> Vec<(String, String)> {
            any!(a, v => {
                let mut o: Vec<(String, String)> = vec![];
                let n = v.len();
                let mut put = |name: &str, r: Result<String, String>| o.push((name.to_string(), r.unwrap_or_else(|_| "PANIC".into())));
                put("cmp.fresh", guard(|| format!("{:?}", v.cmp_any(other))));
                put("is_zero", guard(|| format!("{:?}", v.is_zero())));
                put("to_vec.be", guard(|| format!("{:?}", v.to_vec(Endianness::Big))));
                put("significant_bits", guard(|| format!("{:?}", v.significant_bits())));
                put("hash.sip", guard(|| format!("{:?}", sip_hash(v))));
                put("fmt.x", guard(|| format!("{:x}", v)));
                put("grow.resize0", guard(|| { let mut c = v.clone(); c.resize(n + 70, Bit::Zero); abs_string(&c) }));
                put("grow.shr_in", guard(|| { let mut c = v.clone(); c.resize(n + 3, Bit::Zero); c.shr_in(Bit::Zero); abs_string(&c) }));
                o
            })
        };
        let a = obs(&self.holders[h].subj, &twin);
        let b = obs(&twin, &twin);
        if let Some((name, x, y)) = first_diff(&a, &b) {
            self.report(&["C03", "C18"], &format!("light.{}", name), h, kname, format!("with non-fresh capacity state, observer {} differs: subject {} fresh twin {}", name, x, y));
        }
    }

    fn panel(&self, h: usize) -> Vec<AnyBv> {
        let mut p = vec![];
        for (i, o) in self.holders.iter().enumerate() {
            if i != h && o.subj.len() <= o.subj.capacity() {
                p.push(o.subj.clone());
            }
        }
        p
    }

    /// observer battery + growth probe: subject against a fresh twin of its current state (C03)
    fn run_battery(&mut self, h: usize, heavy: bool, kname: &str) {
        let panel = self.panel(h);
        let tid = self.holders[h].subj.tid();
        let bits = self.holders[h].model.clone();
        self.evaluated("C03");
        let cap = self.cap_state(h);
        if cap {
            self.evaluated("C18");
        }
        let c03: &[&'static str] = if cap { &["C03", "C18"] } else { &["C03"] };
        self.bump("batteries");
        let twin = fresh_any(tid, &bits);
        let a = any!(&self.holders[h].subj, v => battery(v, &panel, heavy));
        let b = any!(&twin, v => battery(v, &panel, heavy));
        if let Some((name, x, y)) = first_diff(&a, &b) {
            self.report(c03, &format!("battery.{}", strip_idx(&name)), h, kname, format!("observer {} differs: subject {} fresh twin {}", name, x, y));
            return;
        }
        let ga = any!(&self.holders[h].subj, v => growth(v));
        let gb = any!(&twin, v => growth(v));
        if let Some((name, x, y)) = first_diff(&ga, &gb) {
            self.report(c03, &format!("growth.{}", strip_idx(&name)), h, kname, format!("growth probe {} differs: subject {} fresh twin {}", name, x, y));
        }
    }

    fn do_out_of_range(&mut self, st: &Step, h: usize) {
        // C19, debug-assertion clause only; in the release profile the step is not executed at all
        if !self.dbg || !self.mask.c19 {
            self.bump("skipped_steps");
            return;
        }
        let n = self.holders[h].model.len();
        let which = st.a % 6;
        let idx = n + (st.b as usize) % 70 + if which >= 2 { 1 } else { 0 };
        let mut subj = std::mem::replace(&mut self.holders[h].subj, fresh_any(0, &[]));
        let r = any!(&mut subj, s => guard(|| {
            match which {
                0 => { let _ = s.get(idx); }
                1 => s.set(idx, b2bit(st.bit)),
                2 => { let _ = s.copy_range(0..idx); }
                3 => { let _ = s.copy_range(idx..idx); }
                4 => { let _ = s.split_off(idx); }
                _ => { let _ = s.copy_range(idx..n); }
            }
        }));
        self.holders[h].subj = subj;
        let name = ["get", "set", "copy_range.end", "copy_range.both", "split_off", "copy_range.start"][which as usize];
        self.bump("c19_out_of_range_attempts");
        self.evaluated("C19");
        self.out.nontrivial = true;
        if r.is_ok() {
            self.report(&["C19"], "out-of-range-must-panic", h, name, format!("{} with index {} on length {} did not panic in a debug-assertion build", name, idx, n));
        }
        if !self.check_len_cap(h, name, true) {
            return;
        }
        self.holders[h].tainted = true;
        self.holders[h].model = any!(&self.holders[h].subj, v => abs(v));
    }
}

fn strip_idx(name: &str) -> String {
    match name.find('[') {
        Some(i) => name[..i].to_string(),
        None => name.to_string(),
    }
}
