//! Simulator-owned implementations of the std traits bva is handed: Read, Write, Iterator,
//! Hasher. Each fault counter is incremented only when the fault actually fired.

use crate::trace::Dec;
use bva::Bit;
use std::collections::VecDeque;
use std::hash::Hasher;
use std::io::{self, ErrorKind, Read, Write};

pub const HARD_KINDS: [ErrorKind; 5] = [
    ErrorKind::Other,
    ErrorKind::BrokenPipe,
    ErrorKind::WouldBlock,
    ErrorKind::TimedOut,
    ErrorKind::ConnectionReset,
];

/// a harness-level bound so that a looping implementation cannot hang a run
pub const CALL_BUDGET: usize = 10_000;

#[derive(Default, Clone, Debug)]
pub struct SeamStats {
    pub calls: usize,
    pub short: usize,
    pub eintr: usize,
    pub hard: usize,
    pub zero: usize,
    pub bytes: usize,
    pub budget_exhausted: bool,
    /// a call was made with an empty buffer
    pub empty_calls: usize,
}

pub struct SimReader<'a> {
    pub pipe: &'a mut VecDeque<u8>,
    pub script: &'a [Dec],
    pub pos: usize,
    pub stats: SeamStats,
    /// once set, every later call fails the same way
    sticky: Option<Dec>,
    /// how many bytes had been delivered when the first hard/zero decision fired
    pub delivered_at_fault: Option<usize>,
    /// set when Ok(0) was returned because the pipe ran dry (EOF, e.g. truncated message)
    pub hit_eof: bool,
}

impl<'a> SimReader<'a> {
    pub fn new(pipe: &'a mut VecDeque<u8>, script: &'a [Dec]) -> Self {
        SimReader { pipe, script, pos: 0, stats: SeamStats::default(), sticky: None, delivered_at_fault: None, hit_eof: false }
    }
    fn deliver(&mut self, buf: &mut [u8], n: usize) -> usize {
        let n = n.min(self.pipe.len()).min(buf.len());
        for slot in buf.iter_mut().take(n) {
            *slot = self.pipe.pop_front().unwrap();
        }
        self.stats.bytes += n;
        n
    }
}

impl Read for SimReader<'_> {
    fn read(&mut self, buf: &mut [u8]) -> io::Result<usize> {
        self.stats.calls += 1;
        if self.stats.calls > CALL_BUDGET {
            self.stats.budget_exhausted = true;
            return Err(io::Error::new(ErrorKind::Other, "bvsim: reader call budget exhausted"));
        }
        if buf.is_empty() {
            self.stats.empty_calls += 1;
            return Ok(0);
        }
        let d = match self.sticky {
            Some(d) => d,
            None => {
                let d = self.script.get(self.pos).copied().unwrap_or(Dec::Full);
                self.pos += 1;
                d
            }
        };
        match d {
            Dec::Full => {
                let n = self.deliver(buf, buf.len());
                if n == 0 {
                    self.hit_eof = true;
                }
                Ok(n)
            }
            Dec::Short(raw) => {
                let avail = buf.len().min(self.pipe.len());
                if avail == 0 {
                    self.hit_eof = true;
                    return Ok(0);
                }
                let n = if avail <= 1 { avail } else { 1 + (raw as usize) % (avail - 1) };
                if n < buf.len() {
                    self.stats.short += 1;
                }
                Ok(self.deliver(buf, n))
            }
            Dec::Eintr => {
                self.stats.eintr += 1;
                Err(io::Error::new(ErrorKind::Interrupted, "bvsim: EINTR"))
            }
            Dec::Hard(k) => {
                if self.sticky.is_none() {
                    self.delivered_at_fault = Some(self.stats.bytes);
                }
                self.sticky = Some(d);
                self.stats.hard += 1;
                Err(io::Error::new(HARD_KINDS[k as usize % HARD_KINDS.len()], "bvsim: injected read error"))
            }
            Dec::Zero => {
                if self.sticky.is_none() {
                    self.delivered_at_fault = Some(self.stats.bytes);
                }
                self.sticky = Some(d);
                self.stats.zero += 1;
                Ok(0)
            }
        }
    }
}

pub struct SimWriter<'a> {
    pub sink: Vec<u8>,
    pub script: &'a [Dec],
    pub pos: usize,
    pub stats: SeamStats,
    sticky: Option<Dec>,
    pub flushed: usize,
}

impl<'a> SimWriter<'a> {
    pub fn new(script: &'a [Dec]) -> Self {
        SimWriter { sink: vec![], script, pos: 0, stats: SeamStats::default(), sticky: None, flushed: 0 }
    }
}

impl Write for SimWriter<'_> {
    fn write(&mut self, buf: &[u8]) -> io::Result<usize> {
        self.stats.calls += 1;
        if self.stats.calls > CALL_BUDGET {
            self.stats.budget_exhausted = true;
            return Err(io::Error::new(ErrorKind::Other, "bvsim: writer call budget exhausted"));
        }
        if buf.is_empty() {
            self.stats.empty_calls += 1;
            return Ok(0);
        }
        let d = match self.sticky {
            Some(d) => d,
            None => {
                let d = self.script.get(self.pos).copied().unwrap_or(Dec::Full);
                self.pos += 1;
                d
            }
        };
        match d {
            Dec::Full => {
                self.sink.extend_from_slice(buf);
                self.stats.bytes += buf.len();
                Ok(buf.len())
            }
            Dec::Short(raw) => {
                let n = if buf.len() <= 1 { buf.len() } else { 1 + (raw as usize) % (buf.len() - 1) };
                if n < buf.len() {
                    self.stats.short += 1;
                }
                self.sink.extend_from_slice(&buf[..n]);
                self.stats.bytes += n;
                Ok(n)
            }
            Dec::Eintr => {
                self.stats.eintr += 1;
                Err(io::Error::new(ErrorKind::Interrupted, "bvsim: EINTR"))
            }
            Dec::Hard(k) => {
                self.sticky = Some(d);
                self.stats.hard += 1;
                Err(io::Error::new(HARD_KINDS[k as usize % HARD_KINDS.len()], "bvsim: injected write error"))
            }
            Dec::Zero => {
                self.sticky = Some(d);
                self.stats.zero += 1;
                Ok(0)
            }
        }
    }
    fn flush(&mut self) -> io::Result<()> {
        self.flushed += 1;
        Ok(())
    }
}

/// the message carried by a panic injected from a simulated iterator
pub const ITER_PANIC_MSG: &str = "bvsim: injected iterator panic";

/// Iterator handed to extend / collect. Varies what the Iterator contract leaves free.
pub struct SimIter<'a> {
    pub items: &'a [bool],
    pub pos: usize,
    /// 0 exact, 1 (0,None), 2 (0,Some(n)), 3 (k<n,None), 4 (n,Some(n+j)), 6 (0,Some(MAX)), 7 (n,Some(MAX)),
    /// 5 hostile: lower bound = raw (a lie)
    pub hint_shape: u8,
    pub hint_raw: u64,
    pub fused: bool,
    pub panic_after: Option<usize>,
    pub polled_after_end: usize,
    pub next_calls: usize,
    pub hint_calls: usize,
    ended: bool,
}

impl<'a> SimIter<'a> {
    pub fn new(items: &'a [bool], hint_shape: u8, hint_raw: u64, fused: bool, panic_after: Option<usize>) -> Self {
        SimIter { items, pos: 0, hint_shape, hint_raw, fused, panic_after, polled_after_end: 0, next_calls: 0, hint_calls: 0, ended: false }
    }
}

impl Iterator for SimIter<'_> {
    type Item = Bit;
    fn next(&mut self) -> Option<Bit> {
        self.next_calls += 1;
        if self.ended {
            self.polled_after_end += 1;
            if self.fused {
                return None;
            }
            // a non-fused iterator may yield again after None; the model stops at the first None.
            // Bounded: one more item, then None for good (an unbounded one would hang any consumer
            // that keeps polling, which is not a property violation but a harness problem)
            return if self.polled_after_end == 1 { Some(Bit::One) } else { None };
        }
        if let Some(k) = self.panic_after {
            if self.pos >= k {
                panic!("{}", ITER_PANIC_MSG);
            }
        }
        if self.pos < self.items.len() {
            let b = self.items[self.pos];
            self.pos += 1;
            Some(if b { Bit::One } else { Bit::Zero })
        } else {
            self.ended = true;
            None
        }
    }
    fn size_hint(&self) -> (usize, Option<usize>) {
        let rem = if self.ended { 0 } else { self.items.len() - self.pos };
        match self.hint_shape {
            0 => (rem, Some(rem)),
            1 => (0, None),
            2 => (0, Some(rem)),
            3 => (if rem == 0 { 0 } else { (self.hint_raw as usize) % rem }, None),
            4 => (rem, Some(rem.saturating_add((self.hint_raw % 100) as usize))),
            // legal: an upper bound may be arbitrarily loose
            // hostile (contract-breaking): an upper bound below the true count
            8 => (0, Some((self.hint_raw as usize) % (rem + 1))),
            6 => (0, Some(usize::MAX)),
            7 => (rem, Some(usize::MAX)),
            _ => (self.hint_raw as usize, None),
        }
    }
}

// ---------------------------------------------------------------------------------------------
// Hashers
// ---------------------------------------------------------------------------------------------

/// H1: records the typed event stream - write_usize(5) and write(&5usize.to_ne_bytes()) differ
#[derive(Default, Clone, PartialEq, Eq, Debug)]
pub struct TypedRecorder {
    pub events: Vec<(u8, Vec<u8>)>,
}

impl Hasher for TypedRecorder {
    fn finish(&self) -> u64 {
        0
    }
    fn write(&mut self, bytes: &[u8]) {
        self.events.push((0, bytes.to_vec()));
    }
    fn write_u8(&mut self, i: u8) {
        self.events.push((1, i.to_le_bytes().to_vec()));
    }
    fn write_u16(&mut self, i: u16) {
        self.events.push((2, i.to_le_bytes().to_vec()));
    }
    fn write_u32(&mut self, i: u32) {
        self.events.push((3, i.to_le_bytes().to_vec()));
    }
    fn write_u64(&mut self, i: u64) {
        self.events.push((4, i.to_le_bytes().to_vec()));
    }
    fn write_u128(&mut self, i: u128) {
        self.events.push((5, i.to_le_bytes().to_vec()));
    }
    fn write_usize(&mut self, i: usize) {
        self.events.push((6, i.to_le_bytes().to_vec()));
    }
    fn write_i8(&mut self, i: i8) {
        self.events.push((7, i.to_le_bytes().to_vec()));
    }
    fn write_i16(&mut self, i: i16) {
        self.events.push((8, i.to_le_bytes().to_vec()));
    }
    fn write_i32(&mut self, i: i32) {
        self.events.push((9, i.to_le_bytes().to_vec()));
    }
    fn write_i64(&mut self, i: i64) {
        self.events.push((10, i.to_le_bytes().to_vec()));
    }
    fn write_i128(&mut self, i: i128) {
        self.events.push((11, i.to_le_bytes().to_vec()));
    }
    fn write_isize(&mut self, i: isize) {
        self.events.push((12, i.to_le_bytes().to_vec()));
    }
}

/// H2: only `write` is implemented; the default methods funnel everything into one byte stream
#[derive(Default, Clone, PartialEq, Eq, Debug)]
pub struct FlatRecorder {
    pub bytes: Vec<u8>,
}

impl Hasher for FlatRecorder {
    fn finish(&self) -> u64 {
        0
    }
    fn write(&mut self, bytes: &[u8]) {
        self.bytes.extend_from_slice(bytes);
    }
}

/// H3: std's SipHash with fixed keys (never RandomState, so membership checks replay exactly)
pub type FixedBuild = std::hash::BuildHasherDefault<std::collections::hash_map::DefaultHasher>;
