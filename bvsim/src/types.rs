//! The roster of concrete bit-vector types, a type-erased holder (`AnyBv`) and the
//! `Subj` trait that gives generic code access to the operations that are not part of
//! `bva::BitVector` (operators with mixed operand types, conversions, capacity management).
//! Everything here is dispatch glue: no judgement is made in this file.

use bva::{Bit, BitVector, Bv, Bvd, Bvf, ConvertionError};
use std::cmp::Ordering;
use std::fmt::Debug;
use std::hash::Hash;

pub type T0 = Bvf<u8, 1>;
pub type T1 = Bvf<u8, 3>;
pub type T2 = Bvf<u16, 2>;
pub type T3 = Bvf<u8, 20>;
pub type T4 = Bvf<u32, 3>;
pub type T5 = Bvf<u16, 9>;
pub type T6 = Bvf<u64, 2>;
pub type T7 = Bvf<u64, 3>;
pub type T8 = Bvf<u128, 1>;
pub type T9 = Bvf<u128, 2>;
pub type T10 = Bvf<usize, 2>;
pub type T11 = Bvd;
pub type T12 = Bv;

pub const NTYPES: u8 = 13;
pub const TID_BVD: u8 = 11;
pub const TID_BV: u8 = 12;
pub const TYPE_NAMES: [&str; 13] = [
    "Bvf<u8,1>",
    "Bvf<u8,3>",
    "Bvf<u16,2>",
    "Bvf<u8,20>",
    "Bvf<u32,3>",
    "Bvf<u16,9>",
    "Bvf<u64,2>",
    "Bvf<u64,3>",
    "Bvf<u128,1>",
    "Bvf<u128,2>",
    "Bvf<usize,2>",
    "Bvd",
    "Bv",
];
/// word size in bits of each roster type
pub const WORD_BITS: [usize; 13] = [8, 8, 16, 8, 32, 16, 64, 64, 128, 128, 64, 64, 64];
/// fixed capacity in bits (None for the growable types)
pub const FIXED_CAP: [Option<usize>; 13] = [
    Some(8),
    Some(24),
    Some(32),
    Some(160),
    Some(96),
    Some(144),
    Some(128),
    Some(192),
    Some(128),
    Some(256),
    Some(128),
    None,
    None,
];
/// types usable as the right-hand side of a binary operator step
pub const OPERAND_TIDS: [u8; 6] = [1, 2, 6, 9, 11, 12];
/// the inline limit of `Bv` on this (64-bit) target
pub const INLINE_LIMIT: usize = 128;

pub fn type_class(tid: u8) -> &'static str {
    match tid {
        11 => "Bvd",
        12 => "Bv",
        0 | 8 => "Bvf-1word",
        _ => "Bvf-multiword",
    }
}

pub fn tid_from_name(s: &str) -> Option<u8> {
    TYPE_NAMES.iter().position(|n| *n == s).map(|i| i as u8)
}

#[derive(Clone, Debug)]
pub enum AnyBv {
    V0(T0),
    V1(T1),
    V2(T2),
    V3(T3),
    V4(T4),
    V5(T5),
    V6(T6),
    V7(T7),
    V8(T8),
    V9(T9),
    V10(T10),
    V11(T11),
    V12(T12),
}

#[macro_export]
macro_rules! any {
    ($e:expr, $v:ident => $body:expr) => {
        match $e {
            $crate::types::AnyBv::V0($v) => $body,
            $crate::types::AnyBv::V1($v) => $body,
            $crate::types::AnyBv::V2($v) => $body,
            $crate::types::AnyBv::V3($v) => $body,
            $crate::types::AnyBv::V4($v) => $body,
            $crate::types::AnyBv::V5($v) => $body,
            $crate::types::AnyBv::V6($v) => $body,
            $crate::types::AnyBv::V7($v) => $body,
            $crate::types::AnyBv::V8($v) => $body,
            $crate::types::AnyBv::V9($v) => $body,
            $crate::types::AnyBv::V10($v) => $body,
            $crate::types::AnyBv::V11($v) => $body,
            $crate::types::AnyBv::V12($v) => $body,
        }
    };
}

#[macro_export]
macro_rules! any_typed {
    ($e:expr, $v:ident, $T:ident => $body:expr) => {
        match $e {
            $crate::types::AnyBv::V0($v) => {
                type $T = $crate::types::T0;
                $body
            }
            $crate::types::AnyBv::V1($v) => {
                type $T = $crate::types::T1;
                $body
            }
            $crate::types::AnyBv::V2($v) => {
                type $T = $crate::types::T2;
                $body
            }
            $crate::types::AnyBv::V3($v) => {
                type $T = $crate::types::T3;
                $body
            }
            $crate::types::AnyBv::V4($v) => {
                type $T = $crate::types::T4;
                $body
            }
            $crate::types::AnyBv::V5($v) => {
                type $T = $crate::types::T5;
                $body
            }
            $crate::types::AnyBv::V6($v) => {
                type $T = $crate::types::T6;
                $body
            }
            $crate::types::AnyBv::V7($v) => {
                type $T = $crate::types::T7;
                $body
            }
            $crate::types::AnyBv::V8($v) => {
                type $T = $crate::types::T8;
                $body
            }
            $crate::types::AnyBv::V9($v) => {
                type $T = $crate::types::T9;
                $body
            }
            $crate::types::AnyBv::V10($v) => {
                type $T = $crate::types::T10;
                $body
            }
            $crate::types::AnyBv::V11($v) => {
                type $T = $crate::types::T11;
                $body
            }
            $crate::types::AnyBv::V12($v) => {
                type $T = $crate::types::T12;
                $body
            }
        }
    };
}

#[macro_export]
macro_rules! with_type {
    ($tid:expr, $T:ident => $body:expr) => {
        match $tid {
            0 => {
                type $T = $crate::types::T0;
                $body
            }
            1 => {
                type $T = $crate::types::T1;
                $body
            }
            2 => {
                type $T = $crate::types::T2;
                $body
            }
            3 => {
                type $T = $crate::types::T3;
                $body
            }
            4 => {
                type $T = $crate::types::T4;
                $body
            }
            5 => {
                type $T = $crate::types::T5;
                $body
            }
            6 => {
                type $T = $crate::types::T6;
                $body
            }
            7 => {
                type $T = $crate::types::T7;
                $body
            }
            8 => {
                type $T = $crate::types::T8;
                $body
            }
            9 => {
                type $T = $crate::types::T9;
                $body
            }
            10 => {
                type $T = $crate::types::T10;
                $body
            }
            11 => {
                type $T = $crate::types::T11;
                $body
            }
            12 => {
                type $T = $crate::types::T12;
                $body
            }
            other => panic!("harness: bad type id {}", other),
        }
    };
}

impl AnyBv {
    pub fn tid(&self) -> u8 {
        any!(self, v => tid_of(v))
    }
    pub fn len(&self) -> usize {
        any!(self, v => v.len())
    }
    pub fn capacity(&self) -> usize {
        any!(self, v => v.capacity())
    }
}

fn tid_of<T: Subj>(_: &T) -> u8 {
    T::TID
}

/// right-hand side of a binary operator
#[derive(Clone, Debug)]
pub enum Rhs {
    V(AnyBv),
    /// native integer: width index (0..6 = u8,u16,u32,u64,u128,usize) and value
    U(u8, u128),
}

#[derive(Clone, Copy, Debug)]
pub struct CmpObs {
    pub eq: bool,
    pub ne: bool,
    pub lt: bool,
    pub le: bool,
    pub gt: bool,
    pub ge: bool,
    pub pc: i8,
    pub req: bool,
    pub rpc: i8,
}

fn ord_i8(o: Option<Ordering>) -> i8 {
    match o {
        None => 9,
        Some(Ordering::Less) => -1,
        Some(Ordering::Equal) => 0,
        Some(Ordering::Greater) => 1,
    }
}

pub fn cmp_obs<A: PartialOrd<B>, B: PartialOrd<A>>(a: &A, b: &B) -> CmpObs {
    CmpObs {
        eq: a == b,
        ne: a != b,
        lt: a < b,
        le: a <= b,
        gt: a > b,
        ge: a >= b,
        pc: ord_i8(a.partial_cmp(b)),
        req: b == a,
        rpc: ord_i8(b.partial_cmp(a)),
    }
}

#[derive(Clone, Copy, Debug, Default)]
pub struct Probe {
    /// bits at positions >= len inside the word that holds bit len (or the first word past it) are set
    pub dirty_pad: bool,
    /// a storage word entirely past the used words is non-zero
    pub dirty_spare: bool,
    /// number of storage words not needed for len
    pub spare_words: usize,
    /// Bv only: stored on the heap
    pub heap: bool,
}

fn probe_words<I: Copy + Into<u128>>(words: &[I], wbits: usize, len: usize) -> Probe {
    let used = (len + wbits - 1) / wbits;
    let mut p = Probe::default();
    p.spare_words = words.len().saturating_sub(used);
    for (i, w) in words.iter().enumerate() {
        let w: u128 = (*w).into();
        let lo = i * wbits;
        if lo + wbits <= len {
            continue;
        }
        let keep = len.saturating_sub(lo);
        let garbage = if keep >= 128 { 0 } else { w >> keep };
        if garbage != 0 {
            if i < used {
                p.dirty_pad = true;
            } else {
                p.dirty_spare = true;
            }
        }
    }
    p
}

pub trait Subj: BitVector + Clone + Debug + Hash + Ord + Extend<Bit> + FromIterator<Bit> + 'static {
    /// IntoIterator on a reference
    fn into_iter_ref(&self) -> bva::BitIterator<'_, Self>;
    const TID: u8;
    fn wrap(self) -> AnyBv;
    fn reserve_(&mut self, k: usize);
    fn shrink_(&mut self);
    /// op: 0 add 1 sub 2 mul 3 div 4 rem 5 and 6 or 7 xor; form: 0 `a op= &b`, 1 `a op= b`, 2 `&a op &b`, 3 `a op b`
    fn binop(&mut self, op: u8, form: u8, rhs: &Rhs);
    /// amount type index 0..6 = u8,u16,u32,u64,u128,usize; form: 0 `a <<= k`, 1 `a <<= &k`, 2 `&a << k`, 3 `a << &k`
    fn shift(&mut self, left: bool, form: u8, aty: u8, amount: u128);
    fn not_(&mut self, by_ref: bool);
    /// None when that form of the conversion does not exist in the crate's API
    fn convert(&self, tid: u8, by_val: bool) -> Option<Result<AnyBv, ConvertionError>>;
    fn to_uint(&self, w: u8, by_val: bool) -> Result<u128, ConvertionError>;
    fn from_uint(w: u8, val: u128) -> Result<Self, ConvertionError>;
    /// conversion from a slice of native integers of width index w (element 0 least significant)
    fn from_slice(w: u8, vals: &[u128]) -> Result<Self, ConvertionError>;
    fn raw_roundtrip(&self) -> Option<Self>;
    fn probe(&self) -> Probe;
    fn cmp_any(&self, other: &AnyBv) -> CmpObs;
    fn div_rem_any(&self, d: &AnyBv) -> (Self, Self);
}

pub fn uint_bits(w: u8) -> usize {
    [8, 16, 32, 64, 128, 64][w as usize]
}
pub fn uint_mask(w: u8, v: u128) -> u128 {
    let b = uint_bits(w);
    if b >= 128 {
        v
    } else {
        v & ((1u128 << b) - 1)
    }
}

macro_rules! forms {
    ($s:ident, $form:expr, $r:expr, $aop:tt, $bop:tt) => {
        match $form {
            0 => {
                *$s $aop $r;
            }
            1 => {
                *$s $aop $r.clone();
            }
            2 => {
                let t = &*$s $bop $r;
                *$s = t;
            }
            _ => {
                let t = $s.clone() $bop $r.clone();
                *$s = t;
            }
        }
    };
}

macro_rules! binop_body {
    ($s:ident, $op:expr, $form:expr, $r:expr) => {
        match $op {
            0 => forms!($s, $form, $r, +=, +),
            1 => forms!($s, $form, $r, -=, -),
            2 => forms!($s, $form, $r, *=, *),
            3 => forms!($s, $form, $r, /=, /),
            4 => forms!($s, $form, $r, %=, %),
            5 => forms!($s, $form, $r, &=, &),
            6 => forms!($s, $form, $r, |=, |),
            _ => forms!($s, $form, $r, ^=, ^),
        }
    };
}

macro_rules! binop_impl {
    () => {
        fn binop(&mut self, op: u8, form: u8, rhs: &Rhs) {
            let s = self;
            match rhs {
                Rhs::V(a) => match a {
                    AnyBv::V1(r) => binop_body!(s, op, form, r),
                    AnyBv::V2(r) => binop_body!(s, op, form, r),
                    AnyBv::V6(r) => binop_body!(s, op, form, r),
                    AnyBv::V9(r) => binop_body!(s, op, form, r),
                    AnyBv::V11(r) => binop_body!(s, op, form, r),
                    AnyBv::V12(r) => binop_body!(s, op, form, r),
                    _ => panic!("harness: operand type outside the binary-operator set"),
                },
                Rhs::U(w, v) => match w {
                    0 => {
                        let x = *v as u8;
                        let r = &x;
                        binop_body!(s, op, form, r)
                    }
                    1 => {
                        let x = *v as u16;
                        let r = &x;
                        binop_body!(s, op, form, r)
                    }
                    2 => {
                        let x = *v as u32;
                        let r = &x;
                        binop_body!(s, op, form, r)
                    }
                    3 => {
                        let x = *v as u64;
                        let r = &x;
                        binop_body!(s, op, form, r)
                    }
                    4 => {
                        let x = *v;
                        let r = &x;
                        binop_body!(s, op, form, r)
                    }
                    _ => {
                        let x = *v as usize;
                        let r = &x;
                        binop_body!(s, op, form, r)
                    }
                },
            }
        }
    };
}

macro_rules! shift_forms {
    ($s:ident, $left:expr, $form:expr, $k:expr) => {{
        let k = $k;
        if $left {
            match $form {
                0 => *$s <<= k,
                1 => *$s <<= &k,
                2 => {
                    let t = &*$s << k;
                    *$s = t;
                }
                _ => {
                    let t = $s.clone() << &k;
                    *$s = t;
                }
            }
        } else {
            match $form {
                0 => *$s >>= k,
                1 => *$s >>= &k,
                2 => {
                    let t = &*$s >> k;
                    *$s = t;
                }
                _ => {
                    let t = $s.clone() >> &k;
                    *$s = t;
                }
            }
        }
    }};
}

macro_rules! shift_impl {
    () => {
        fn shift(&mut self, left: bool, form: u8, aty: u8, amount: u128) {
            let s = self;
            match aty {
                0 => shift_forms!(s, left, form, amount as u8),
                1 => shift_forms!(s, left, form, amount as u16),
                2 => shift_forms!(s, left, form, amount as u32),
                3 => shift_forms!(s, left, form, amount as u64),
                4 => shift_forms!(s, left, form, amount),
                _ => shift_forms!(s, left, form, amount as usize),
            }
        }
        fn not_(&mut self, by_ref: bool) {
            if by_ref {
                let t = !&*self;
                *self = t;
            } else {
                let t = !self.clone();
                *self = t;
            }
        }
    };
}

macro_rules! one_uint {
    ($self:ident, $by_val:ident, $t:ty) => {
        if $by_val {
            <$t>::try_from($self.clone()).map(|x| x as u128)
        } else {
            <$t>::try_from($self).map(|x| x as u128)
        }
    };
}

macro_rules! uint_impl {
    () => {
        fn to_uint(&self, w: u8, by_val: bool) -> Result<u128, ConvertionError> {
            match w {
                0 => one_uint!(self, by_val, u8),
                1 => one_uint!(self, by_val, u16),
                2 => one_uint!(self, by_val, u32),
                3 => one_uint!(self, by_val, u64),
                4 => one_uint!(self, by_val, u128),
                _ => one_uint!(self, by_val, usize),
            }
        }
    };
}

fn dr<T: BitVector, B: BitVector>(a: &T, b: &B) -> (T, T)
where
    T: for<'a> TryFrom<&'a B, Error: std::fmt::Debug>,
{
    a.div_rem::<B>(b)
}

macro_rules! common_impl {
    () => {
        fn into_iter_ref(&self) -> bva::BitIterator<'_, Self> {
            IntoIterator::into_iter(self)
        }
        fn cmp_any(&self, other: &AnyBv) -> CmpObs {
            any!(other, o => cmp_obs(self, o))
        }
        fn div_rem_any(&self, d: &AnyBv) -> (Self, Self) {
            any_typed!(d, o, B => dr::<Self, B>(self, o))
        }
    };
}

macro_rules! ff {
    ($self:ident, $by_val:ident, $U:ty) => {
        if $by_val {
            None
        } else {
            Some(<$U>::try_from($self).map(|x| x.wrap()))
        }
    };
}

macro_rules! tf {
    ($self:ident, $by_val:expr, $U:ty) => {
        Some(if $by_val { <$U>::try_from($self.clone()) } else { <$U>::try_from($self) }.map(|x| x.wrap()))
    };
}

macro_rules! impl_fixed {
    ($T:ty, $I:ty, $tid:expr, $variant:ident) => {
        impl Subj for $T {
            const TID: u8 = $tid;
            fn wrap(self) -> AnyBv {
                AnyBv::$variant(self)
            }
            fn reserve_(&mut self, _k: usize) {}
            fn shrink_(&mut self) {}
            binop_impl!();
            shift_impl!();
            uint_impl!();
            common_impl!();
            fn convert(&self, tid: u8, by_val: bool) -> Option<Result<AnyBv, ConvertionError>> {
                match tid {
                    0 => ff!(self, by_val, T0),
                    1 => ff!(self, by_val, T1),
                    2 => ff!(self, by_val, T2),
                    3 => ff!(self, by_val, T3),
                    4 => ff!(self, by_val, T4),
                    5 => ff!(self, by_val, T5),
                    6 => ff!(self, by_val, T6),
                    7 => ff!(self, by_val, T7),
                    8 => ff!(self, by_val, T8),
                    9 => ff!(self, by_val, T9),
                    10 => ff!(self, by_val, T10),
                    11 => Some(Ok(if by_val { Bvd::from(self.clone()) } else { Bvd::from(self) }.wrap())),
                    _ => Some(Ok(if by_val { Bv::from(self.clone()) } else { Bv::from(self) }.wrap())),
                }
            }
            fn from_uint(w: u8, val: u128) -> Result<Self, ConvertionError> {
                match w {
                    0 => Self::try_from(val as u8),
                    1 => Self::try_from(val as u16),
                    2 => Self::try_from(val as u32),
                    3 => Self::try_from(val as u64),
                    4 => Self::try_from(val),
                    _ => Self::try_from(val as usize),
                }
            }
            fn from_slice(w: u8, vals: &[u128]) -> Result<Self, ConvertionError> {
                match w {
                    0 => Self::try_from(&vals.iter().map(|x| *x as u8).collect::<Vec<u8>>()[..]),
                    1 => Self::try_from(&vals.iter().map(|x| *x as u16).collect::<Vec<u16>>()[..]),
                    2 => Self::try_from(&vals.iter().map(|x| *x as u32).collect::<Vec<u32>>()[..]),
                    3 => Self::try_from(&vals.iter().map(|x| *x as u64).collect::<Vec<u64>>()[..]),
                    4 => Self::try_from(&vals.to_vec()[..]),
                    _ => Self::try_from(&vals.iter().map(|x| *x as usize).collect::<Vec<usize>>()[..]),
                }
            }
            fn raw_roundtrip(&self) -> Option<Self> {
                let (d, l) = self.clone().into_inner();
                Some(<$T>::new(d, l))
            }
            fn probe(&self) -> Probe {
                let (d, l) = self.clone().into_inner();
                let words: Vec<u128> = d.iter().map(|w| *w as u128).collect();
                probe_words(&words, <$I>::BITS as usize, l)
            }
        }
    };
}

impl_fixed!(T0, u8, 0, V0);
impl_fixed!(T1, u8, 1, V1);
impl_fixed!(T2, u16, 2, V2);
impl_fixed!(T3, u8, 3, V3);
impl_fixed!(T4, u32, 4, V4);
impl_fixed!(T5, u16, 5, V5);
impl_fixed!(T6, u64, 6, V6);
impl_fixed!(T7, u64, 7, V7);
impl_fixed!(T8, u128, 8, V8);
impl_fixed!(T9, u128, 9, V9);
impl_fixed!(T10, usize, 10, V10);

macro_rules! to_fixed_arms {
    ($self:ident, $tid:expr, $by_val:expr) => {{
        match $tid {
            0 => tf!($self, $by_val, T0),
            1 => tf!($self, $by_val, T1),
            2 => tf!($self, $by_val, T2),
            3 => tf!($self, $by_val, T3),
            4 => tf!($self, $by_val, T4),
            5 => tf!($self, $by_val, T5),
            6 => tf!($self, $by_val, T6),
            7 => tf!($self, $by_val, T7),
            8 => tf!($self, $by_val, T8),
            9 => tf!($self, $by_val, T9),
            _ => tf!($self, $by_val, T10),
        }
    }};
}

impl Subj for Bvd {
    const TID: u8 = 11;
    fn wrap(self) -> AnyBv {
        AnyBv::V11(self)
    }
    fn reserve_(&mut self, k: usize) {
        self.reserve(k)
    }
    fn shrink_(&mut self) {
        self.shrink_to_fit()
    }
    binop_impl!();
    shift_impl!();
    uint_impl!();
    common_impl!();
    fn convert(&self, tid: u8, by_val: bool) -> Option<Result<AnyBv, ConvertionError>> {
        match tid {
            0..=10 => to_fixed_arms!(self, tid, by_val),
            11 => {
                if by_val {
                    None
                } else {
                    Some(Ok(Bvd::from(self).wrap()))
                }
            }
            _ => Some(Ok(if by_val { Bv::from(self.clone()) } else { Bv::from(self) }.wrap())),
        }
    }
    fn from_uint(w: u8, val: u128) -> Result<Self, ConvertionError> {
        Ok(match w {
            0 => Self::from(val as u8),
            1 => Self::from(val as u16),
            2 => Self::from(val as u32),
            3 => Self::from(val as u64),
            4 => Self::from(val),
            _ => Self::from(val as usize),
        })
    }
    fn from_slice(w: u8, vals: &[u128]) -> Result<Self, ConvertionError> {
        Ok(match w {
            0 => Self::from(&vals.iter().map(|x| *x as u8).collect::<Vec<u8>>()[..]),
            1 => Self::from(&vals.iter().map(|x| *x as u16).collect::<Vec<u16>>()[..]),
            2 => Self::from(&vals.iter().map(|x| *x as u32).collect::<Vec<u32>>()[..]),
            3 => Self::from(&vals.iter().map(|x| *x as u64).collect::<Vec<u64>>()[..]),
            4 => Self::from(&vals.to_vec()[..]),
            _ => Self::from(&vals.iter().map(|x| *x as usize).collect::<Vec<usize>>()[..]),
        })
    }
    fn raw_roundtrip(&self) -> Option<Self> {
        let (d, l) = self.clone().into_inner();
        Some(Bvd::new(d, l))
    }
    fn probe(&self) -> Probe {
        let (d, l) = self.clone().into_inner();
        let words: Vec<u128> = d.iter().map(|w| *w as u128).collect();
        probe_words(&words, 64, l)
    }
}

impl Subj for Bv {
    const TID: u8 = 12;
    fn wrap(self) -> AnyBv {
        AnyBv::V12(self)
    }
    fn reserve_(&mut self, k: usize) {
        self.reserve(k)
    }
    fn shrink_(&mut self) {
        self.shrink_to_fit()
    }
    binop_impl!();
    shift_impl!();
    uint_impl!();
    common_impl!();
    fn convert(&self, tid: u8, by_val: bool) -> Option<Result<AnyBv, ConvertionError>> {
        match tid {
            0..=10 => to_fixed_arms!(self, tid, by_val),
            11 => Some(Ok(if by_val { Bvd::from(self.clone()) } else { Bvd::from(self) }.wrap())),
            _ => {
                if by_val {
                    None
                } else {
                    Some(Ok(Bv::from(self).wrap()))
                }
            }
        }
    }
    fn from_uint(w: u8, val: u128) -> Result<Self, ConvertionError> {
        Ok(match w {
            0 => Self::from(val as u8),
            1 => Self::from(val as u16),
            2 => Self::from(val as u32),
            3 => Self::from(val as u64),
            4 => Self::from(val),
            _ => Self::from(val as usize),
        })
    }
    fn from_slice(w: u8, vals: &[u128]) -> Result<Self, ConvertionError> {
        Ok(match w {
            0 => Self::from(&vals.iter().map(|x| *x as u8).collect::<Vec<u8>>()[..]),
            1 => Self::from(&vals.iter().map(|x| *x as u16).collect::<Vec<u16>>()[..]),
            2 => Self::from(&vals.iter().map(|x| *x as u32).collect::<Vec<u32>>()[..]),
            3 => Self::from(&vals.iter().map(|x| *x as u64).collect::<Vec<u64>>()[..]),
            4 => Self::from(&vals.to_vec()[..]),
            _ => Self::from(&vals.iter().map(|x| *x as usize).collect::<Vec<usize>>()[..]),
        })
    }
    fn raw_roundtrip(&self) -> Option<Self> {
        None
    }
    fn probe(&self) -> Probe {
        match self {
            Bv::Fixed(b) => b.probe(),
            Bv::Dynamic(b) => {
                let mut p = b.probe();
                p.heap = true;
                p
            }
        }
    }
}

// ---------------------------------------------------------------------------------------------
// generic helpers
// ---------------------------------------------------------------------------------------------

pub fn b2bit(b: bool) -> Bit {
    if b {
        Bit::One
    } else {
        Bit::Zero
    }
}
pub fn bit2b(b: Bit) -> bool {
    b == Bit::One
}

/// "a freshly constructed vector with the same length and the same bits": zeros(n) + set.
pub fn fresh<T: Subj>(bits: &[bool]) -> T {
    let mut v = T::zeros(bits.len());
    for (i, b) in bits.iter().enumerate() {
        if *b {
            v.set(i, Bit::One);
        }
    }
    v
}

pub fn fresh_any(tid: u8, bits: &[bool]) -> AnyBv {
    with_type!(tid, T => fresh::<T>(bits).wrap())
}

/// abstract state through the defining accessors len() and get(i); caller guarantees len <= capacity
pub fn abs<T: BitVector>(v: &T) -> Vec<bool> {
    (0..v.len()).map(|i| bit2b(v.get(i))).collect()
}

pub fn abs_any(a: &AnyBv) -> Vec<bool> {
    any!(a, v => abs(v))
}

/// convert any vector into one of the operand types of the binary-operator set, keeping its
/// representation when it already is one of them
pub fn as_operand(a: &AnyBv) -> AnyBv {
    if OPERAND_TIDS.contains(&a.tid()) {
        a.clone()
    } else {
        any!(a, v => Bvd::from_bits_of(v))
    }
}

trait FromBitsOf {
    fn from_bits_of<T: Subj>(v: &T) -> AnyBv;
}
impl FromBitsOf for Bvd {
    fn from_bits_of<T: Subj>(v: &T) -> AnyBv {
        fresh::<Bvd>(&abs(v)).wrap()
    }
}
