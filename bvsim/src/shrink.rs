//! Minimisation: delete step chunks, simplify arguments, shorten scripts / bit strings, while
//! the same violation class (signature) persists. Bounded number of executions.

use crate::exec::{Exec, Outcome};
use crate::trace::*;

pub fn run_trace(t: &Trace, dbg: bool) -> Outcome {
    Exec::new(t, dbg, false).run().0
}

fn same(o: &Outcome, sig: &str) -> bool {
    o.harness_error.is_none() && o.violation.as_ref().map(|v| v.signature() == sig).unwrap_or(false)
}

pub fn shrink(t: &Trace, dbg: bool, sig: &str, budget: usize) -> (Trace, usize) {
    let mut best = t.clone();
    let mut execs = 0usize;
    let mut try_candidate = |cand: Trace, best: &mut Trace, execs: &mut usize| -> bool {
        if *execs >= budget || cand == *best {
            return false;
        }
        *execs += 1;
        if same(&run_trace(&cand, dbg), sig) {
            *best = cand;
            true
        } else {
            false
        }
    };
    // cut everything after the violating step first
    if let Some(v) = run_trace(&best, dbg).violation {
        let mut c = best.clone();
        c.steps.truncate((v.step + 1).min(c.steps.len()));
        try_candidate(c, &mut best, &mut execs);
    }
    let mut progress = true;
    while progress && execs < budget {
        progress = false;
        // 1. delete chunks of steps
        let mut chunk = (best.steps.len() / 2).max(1);
        loop {
            let mut i = 0;
            while i < best.steps.len() {
                let mut c = best.clone();
                let end = (i + chunk).min(c.steps.len());
                c.steps.drain(i..end);
                if try_candidate(c, &mut best, &mut execs) {
                    progress = true;
                } else {
                    i += chunk;
                }
            }
            if chunk == 1 {
                break;
            }
            chunk /= 2;
        }
        // 2. drop trailing holders
        while best.holders.len() > 1 {
            let mut c = best.clone();
            c.holders.pop();
            if try_candidate(c, &mut best, &mut execs) {
                progress = true;
            } else {
                break;
            }
        }
        // 3. simplify steps
        for i in 0..best.steps.len() {
            let cur = best.steps[i].clone();
            let mut cands: Vec<Step> = vec![];
            if !cur.script.is_empty() {
                let mut s = cur.clone();
                s.script.clear();
                cands.push(s);
                for j in 0..cur.script.len() {
                    let mut s = cur.clone();
                    s.script.remove(j);
                    cands.push(s);
                }
            }
            if cur.calls.len() > 1 {
                for j in (0..cur.calls.len()).rev() {
                    let mut s = cur.clone();
                    s.calls.remove(j);
                    cands.push(s);
                }
            }
            if !cur.items.is_empty() {
                let mut s = cur.clone();
                s.items.truncate(cur.items.len() / 2);
                cands.push(s);
                let mut s = cur.clone();
                s.items.pop();
                cands.push(s);
                let mut s = cur.clone();
                s.items = vec![false; cur.items.len()];
                cands.push(s);
            }
            if let Opnd::Fresh { tid, bits } = &cur.opnd {
                if !bits.is_empty() {
                    let mut s = cur.clone();
                    s.opnd = Opnd::Fresh { tid: *tid, bits: bits[..bits.len() / 2].to_vec() };
                    cands.push(s);
                    let mut s = cur.clone();
                    s.opnd = Opnd::Fresh { tid: *tid, bits: bits[..bits.len() - 1].to_vec() };
                    cands.push(s);
                    let mut s = cur.clone();
                    s.opnd = Opnd::Fresh { tid: *tid, bits: vec![false; bits.len()] };
                    cands.push(s);
                    let mut s = cur.clone();
                    let mut b = vec![false; bits.len()];
                    *b.last_mut().unwrap() = true;
                    s.opnd = Opnd::Fresh { tid: *tid, bits: b };
                    cands.push(s);
                }
            }
            if let Opnd::Uint { w, val } = &cur.opnd {
                for nv in [0u128, 1, val >> 1] {
                    if nv != *val {
                        let mut s = cur.clone();
                        s.opnd = Opnd::Uint { w: *w, val: nv };
                        cands.push(s);
                    }
                }
            }
            for (fa, fb) in [(0u64, cur.b), (cur.a, 0u64), (cur.a / 2, cur.b), (cur.a, cur.b / 2)] {
                if fa != cur.a || fb != cur.b {
                    let mut s = cur.clone();
                    s.a = fa;
                    s.b = fb;
                    cands.push(s);
                }
            }
            if cur.wide != 0 {
                for nw in [0u128, 1, cur.wide >> 1] {
                    if nw != cur.wide {
                        let mut s = cur.clone();
                        s.wide = nw;
                        cands.push(s);
                    }
                }
            }
            if cur.form != 0 {
                let mut s = cur.clone();
                s.form = 0;
                cands.push(s);
            }
            for cand in cands {
                let mut c = best.clone();
                c.steps[i] = cand;
                if try_candidate(c, &mut best, &mut execs) {
                    progress = true;
                    break;
                }
            }
        }
        // 4. simplify initial values
        for h in 0..best.holders.len() {
            let bits = best.holders[h].bits.clone();
            if bits.is_empty() {
                continue;
            }
            let variants = [bits[..bits.len() / 2].to_vec(), bits[..bits.len() - 1].to_vec(), vec![false; bits.len()]];
            for v in variants {
                let mut c = best.clone();
                c.holders[h].bits = v;
                if try_candidate(c, &mut best, &mut execs) {
                    progress = true;
                    break;
                }
            }
        }
    }
    (best, execs)
}
