//! Observer battery (DESIGN §4.3): C03's list of observers, each run under `guard`; the answers
//! of a subject and of a freshly constructed twin must be identical. The battery has no opinion
//! on what the answers *should* be.

use crate::guard::guard;
use crate::model::bits_to_string;
use crate::seams::{FixedBuild, FlatRecorder, TypedRecorder};
use crate::types::*;
use bva::{Bit, BitVector, Endianness};
use std::hash::{BuildHasher, Hash, Hasher};

pub type Obs = Vec<(String, String)>;

fn put<R: std::fmt::Debug>(out: &mut Obs, name: &str, f: impl FnOnce() -> R) {
    let s = match guard(f) {
        Ok(r) => format!("{:?}", r),
        Err(_) => "PANIC".to_string(),
    };
    out.push((name.to_string(), s));
}

pub fn abs_string<T: BitVector>(v: &T) -> String {
    // caller-independent guard: a vector with len > capacity is reported, not indexed
    if v.len() > v.capacity() {
        return format!("OVERLONG len={} cap={}", v.len(), v.capacity());
    }
    format!("{}:{}", v.len(), bits_to_string(&abs(v)))
}

pub fn abs_string_any(a: &AnyBv) -> String {
    any!(a, v => abs_string(v))
}

pub fn typed_hash<T: Hash>(v: &T) -> TypedRecorder {
    let mut h = TypedRecorder::default();
    v.hash(&mut h);
    h
}
pub fn flat_hash<T: Hash>(v: &T) -> FlatRecorder {
    let mut h = FlatRecorder::default();
    v.hash(&mut h);
    h
}
pub fn sip_hash<T: Hash>(v: &T) -> u64 {
    let mut h = FixedBuild::default().build_hasher();
    v.hash(&mut h);
    h.finish()
}

/// `heavy` adds the expensive observers (decimal formatting of long vectors, by-value conversions)
pub fn battery<T: Subj>(v: &T, panel: &[AnyBv], heavy: bool) -> Obs {
    let mut out: Obs = Vec::with_capacity(96);
    let n = v.len();
    put(&mut out, "len", || v.len());
    put(&mut out, "get*", || abs_string(v));
    put(&mut out, "iter", || v.iter().map(|b| if b == Bit::One { '1' } else { '0' }).collect::<String>());
    put(&mut out, "iter.rev", || v.iter().rev().map(|b| if b == Bit::One { '1' } else { '0' }).collect::<String>());
    put(&mut out, "into_iter", || v.into_iter_ref().count());
    put(&mut out, "first", || v.first());
    put(&mut out, "last", || v.last());
    put(&mut out, "is_empty", || v.is_empty());
    put(&mut out, "to_vec.le", || v.to_vec(Endianness::Little));
    put(&mut out, "to_vec.be", || v.to_vec(Endianness::Big));
    put(&mut out, "write.le", || {
        let mut sink: Vec<u8> = vec![];
        let r = v.write(&mut sink, Endianness::Little).is_ok();
        (r, sink)
    });
    put(&mut out, "write.be", || {
        let mut sink: Vec<u8> = vec![];
        let r = v.write(&mut sink, Endianness::Big).is_ok();
        (r, sink)
    });
    put(&mut out, "is_zero", || v.is_zero());
    put(&mut out, "leading_zeros", || v.leading_zeros());
    put(&mut out, "leading_ones", || v.leading_ones());
    put(&mut out, "trailing_zeros", || v.trailing_zeros());
    put(&mut out, "trailing_ones", || v.trailing_ones());
    put(&mut out, "significant_bits", || v.significant_bits());
    // decimal formatting is quadratic in the length (repeated division by ten): bounded to 700 bits
    if n <= 140 || (heavy && n <= 700) {
        put(&mut out, "fmt.display", || format!("{}", v));
        put(&mut out, "fmt.display.pad", || format!("{:>12}|{:+}|{:<7}|", v, v, v));
    }
    put(&mut out, "fmt.b", || format!("{:b}", v));
    put(&mut out, "fmt.o", || format!("{:o}", v));
    put(&mut out, "fmt.x", || format!("{:x}", v));
    put(&mut out, "fmt.X", || format!("{:X}", v));
    put(&mut out, "fmt.#x", || format!("{:#x}|{:#b}|{:#o}|{:#X}", v, v, v, v));
    put(&mut out, "fmt.010x", || format!("{:010x}|{:#012b}|{:^9o}", v, v, v));
    // comparisons against a panel, both operand orders
    let mut panel_all: Vec<AnyBv> = Vec::with_capacity(panel.len() + 3);
    panel_all.push(fresh::<T>(&abs(v)).wrap());
    if n <= v.capacity() {
        panel_all.push(fresh::<T>(&vec![false; n]).wrap());
        panel_all.push(fresh::<T>(&vec![true; n]).wrap());
    }
    panel_all.extend(panel.iter().cloned());
    for (i, p) in panel_all.iter().enumerate() {
        put(&mut out, &format!("cmp[{}:{}]", i, TYPE_NAMES[p.tid() as usize]), || v.cmp_any(p));
    }
    put(&mut out, "cmp.self", || (v == v, v.cmp(v), v.partial_cmp(v)));
    put(&mut out, "hash.typed", || typed_hash(v).events);
    put(&mut out, "hash.flat", || flat_hash(v).bytes);
    put(&mut out, "hash.sip", || sip_hash(v));
    for w in 0..6u8 {
        put(&mut out, &format!("to_uint[{}]", w), || v.to_uint(w, false));
        if heavy {
            put(&mut out, &format!("to_uint.val[{}]", w), || v.to_uint(w, true));
        }
    }
    for tid in 0..NTYPES {
        put(&mut out, &format!("conv[{}]", TYPE_NAMES[tid as usize]), || {
            v.convert(tid, false).map(|r| r.map(|a| abs_string_any(&a)))
        });
        if heavy {
            put(&mut out, &format!("conv.val[{}]", TYPE_NAMES[tid as usize]), || {
                v.convert(tid, true).map(|r| r.map(|a| abs_string_any(&a)))
            });
        }
    }
    put(&mut out, "copy_range.all", || abs_string(&v.copy_range(0..n)));
    if n >= 2 {
        put(&mut out, "copy_range.mid", || abs_string(&v.copy_range(1..n - 1)));
        put(&mut out, "copy_range.hi", || abs_string(&v.copy_range(n / 2..n)));
    }
    put(&mut out, "clone", || abs_string(&v.clone()));
    // the vector as an ARGUMENT of later operations ("every subsequent operation gives the same result")
    if heavy {
        let pattern: Vec<bool> = (0..n + 70).map(|i| i % 3 != 1).collect();
        for ltid in [TID_BVD, TID_BV, 1u8] {
            let ll = pattern.len().min(FIXED_CAP[ltid as usize].unwrap_or(usize::MAX)).min(if ltid == 1 { 11 } else { usize::MAX });
            let lb = &pattern[..ll];
            let lname = TYPE_NAMES[ltid as usize];
            put(&mut out, &format!("arg.append[{}]", lname), || {
                let mut l = fresh_any(ltid, lb);
                any!(&mut l, x => x.append(v));
                abs_string_any(&l)
            });
            put(&mut out, &format!("arg.prepend[{}]", lname), || {
                let mut l = fresh_any(ltid, lb);
                any!(&mut l, x => x.prepend(v));
                abs_string_any(&l)
            });
            put(&mut out, &format!("arg.insert[{}]", lname), || {
                let mut l = fresh_any(ltid, lb);
                any!(&mut l, x => x.insert(1.min(ll), v));
                abs_string_any(&l)
            });
            if n <= 200 {
                put(&mut out, &format!("arg.div_rem[{}]", lname), || {
                    let l = fresh_any(ltid, lb);
                    let d = v.clone().wrap();
                    any!(&l, x => { let (q, r) = x.div_rem_any(&d); (abs_string(&q), abs_string(&r)) })
                });
            }
            if OPERAND_TIDS.contains(&T::TID) {
                let rhs = Rhs::V(v.clone().wrap());
                for op in [0u8, 1, 2, 3, 6] {
                    if op == 3 && n > 200 {
                        continue;
                    }
                    put(&mut out, &format!("arg.binop{}[{}]", op, lname), || {
                        let mut l = fresh_any(ltid, lb);
                        any!(&mut l, x => x.binop(op, if op % 2 == 0 { 0 } else { 2 }, &rhs));
                        abs_string_any(&l)
                    });
                }
            }
        }
    }
    out
}

/// growth probe on clones (so the history is not disturbed): C03's "growing it exposes only the
/// requested fill bits"
pub fn growth<T: Subj>(v: &T) -> Obs {
    let mut out: Obs = Vec::with_capacity(40);
    let n = v.len();
    let cap_limit = FIXED_CAP[T::TID as usize].unwrap_or(usize::MAX);
    let wb = WORD_BITS[T::TID as usize];
    let mut ks: Vec<usize> = vec![1, 8 - n % 8, wb - n % wb, wb - n % wb + wb, 2 * wb + 1];
    if T::TID == TID_BV && n <= INLINE_LIMIT {
        ks.push(INLINE_LIMIT + 1 - n);
    }
    ks.sort();
    ks.dedup();
    for k in ks {
        if k == 0 || n.saturating_add(k) > cap_limit {
            continue;
        }
        put(&mut out, &format!("grow.resize0[{}]", k), || {
            let mut c = v.clone();
            c.resize(n + k, Bit::Zero);
            abs_string(&c)
        });
        put(&mut out, &format!("grow.resize1[{}]", k), || {
            let mut c = v.clone();
            c.resize(n + k, Bit::One);
            abs_string(&c)
        });
        put(&mut out, &format!("grow.sign_extend[{}]", k), || {
            let mut c = v.clone();
            c.sign_extend(n + k);
            abs_string(&c)
        });
        put(&mut out, &format!("grow.append0[{}]", k), || {
            let mut c = v.clone();
            c.append(&bva::Bvd::zeros(k));
            abs_string(&c)
        });
        put(&mut out, &format!("grow.append1[{}]", k), || {
            let mut c = v.clone();
            c.append(&bva::Bvd::ones(k));
            abs_string(&c)
        });
        put(&mut out, &format!("grow.extend[{}]", k), || {
            let mut c = v.clone();
            c.extend((0..k).map(|i| if i % 3 == 0 { Bit::Zero } else { Bit::One }));
            abs_string(&c)
        });
        put(&mut out, &format!("grow.prepend0[{}]", k), || {
            let mut c = v.clone();
            c.prepend(&bva::Bvd::zeros(k));
            abs_string(&c)
        });
    }
    if n < cap_limit {
        put(&mut out, "grow.push0", || {
            let mut c = v.clone();
            c.push(Bit::Zero);
            abs_string(&c)
        });
        put(&mut out, "grow.push1.pop", || {
            let mut c = v.clone();
            c.push(Bit::One);
            let p = c.pop();
            (p, abs_string(&c))
        });
    }
    out
}

pub fn first_diff(a: &Obs, b: &Obs) -> Option<(String, String, String)> {
    if a.len() != b.len() {
        return Some(("<observer count>".into(), a.len().to_string(), b.len().to_string()));
    }
    for (x, y) in a.iter().zip(b.iter()) {
        if x != y {
            return Some((x.0.clone(), x.1.clone(), y.1.clone()));
        }
    }
    None
}
