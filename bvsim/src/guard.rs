//! Panics as crash points: every call into bva runs inside `guard`, which catches the unwind
//! and reports the payload. The panic hook is silenced (it records the message and location in
//! a thread-local so that harness errors can still be diagnosed).

use std::cell::RefCell;
use std::panic::{catch_unwind, AssertUnwindSafe};

thread_local! {
    static LAST: RefCell<Option<String>> = const { RefCell::new(None) };
}

pub fn install_hook() {
    std::panic::set_hook(Box::new(|info| {
        let loc = info.location().map(|l| format!("{}:{}", l.file(), l.line())).unwrap_or_default();
        let msg = if let Some(s) = info.payload().downcast_ref::<&str>() {
            s.to_string()
        } else if let Some(s) = info.payload().downcast_ref::<String>() {
            s.clone()
        } else {
            "<non-string panic payload>".to_string()
        };
        LAST.with(|l| *l.borrow_mut() = Some(format!("{} @ {}", msg, loc)));
    }));
}

pub fn last_panic() -> Option<String> {
    LAST.with(|l| l.borrow().clone())
}

/// Err carries "message @ file:line" of the panic
pub fn guard<R>(f: impl FnOnce() -> R) -> Result<R, String> {
    match catch_unwind(AssertUnwindSafe(f)) {
        Ok(r) => Ok(r),
        Err(_) => Err(last_panic().unwrap_or_else(|| "<panic>".into())),
    }
}

/// was this panic raised by the simulator's own iterator seam (as opposed to by bva)?
pub fn is_injected(msg: &str) -> bool {
    msg.starts_with(crate::seams::ITER_PANIC_MSG)
}
