// included into exec.rs: riders evaluated on a holder in whatever representation its history left it

impl<'t> Exec<'t> {
    /// C16: the six bit-count queries against run lengths computed from the model
    pub fn rider_counts(&mut self, h: usize) {
        let m = self.holders[h].model.clone();
        self.evaluated("C16");
        self.bump("c16_evals");
        let got = any!(&self.holders[h].subj, v => guard(|| {
            (v.leading_zeros(), v.leading_ones(), v.trailing_zeros(), v.trailing_ones(), v.significant_bits(), v.is_zero())
        }));
        let want = (
            model::leading(&m, false),
            model::leading(&m, true),
            model::trailing(&m, false),
            model::trailing(&m, true),
            model::significant_bits(&m),
            model::is_zero(&m),
        );
        let n = m.len();
        let wb = WORD_BITS[self.holders[h].subj.tid() as usize];
        for run in [want.0, want.1, want.2, want.3] {
            if run > 0 && run < n && (run % wb == 0 || (n - run) % wb == 0) {
                self.bump("probe_run_ends_on_word_boundary");
            }
        }
        match got {
            Err(p) => self.report(&["C16"], "counts.panic", h, "counts", format!("a bit-count query panicked: {}", p)),
            Ok(g) => {
                if g != want {
                    let names = ["leading_zeros", "leading_ones", "trailing_zeros", "trailing_ones", "significant_bits"];
                    let gv = [g.0, g.1, g.2, g.3, g.4];
                    let wv = [want.0, want.1, want.2, want.3, want.4];
                    let mut which = "is_zero";
                    for i in 0..5 {
                        if gv[i] != wv[i] {
                            which = names[i];
                            break;
                        }
                    }
                    self.report(
                        &["C16"],
                        &format!("counts.{}", which),
                        h,
                        "counts",
                        format!("on {}:{} got (lz,lo,tz,to,sig,zero)={:?} want {:?}", n, model::bits_to_string(&m), g, want),
                    );
                }
            }
        }
    }

    /// C12: convert the subject to every roster type, by reference and by value
    pub fn rider_convert(&mut self, h: usize, all_batteries: bool) {
        let m = self.holders[h].model.clone();
        let n = m.len();
        let src_tid = self.holders[h].subj.tid();
        self.evaluated("C12");
        self.bump("c12_evals");
        let sp = any!(&self.holders[h].subj, v => v.probe());
        if sp.dirty_pad || sp.dirty_spare || sp.spare_words > 0 || sp.heap {
            self.bump("c12_source_nonfresh_representation");
        }
        let want_s = format!("{}:{}", n, model::bits_to_string(&m));
        for tid in 0..NTYPES {
            let fits = n <= maxlen(tid, usize::MAX);
            let mut results: Vec<Option<Result<Result<AnyBv, bva::ConvertionError>, String>>> = vec![];
            for by_val in [false, true] {
                let r = any!(&self.holders[h].subj, v => {
                    match guard(|| v.convert(tid, by_val)) {
                        Ok(None) => None,
                        Ok(Some(x)) => Some(Ok(x)),
                        Err(p) => Some(Err(p)),
                    }
                });
                results.push(r);
            }
            for (i, r) in results.iter().enumerate() {
                let form = if i == 0 { "by-ref" } else { "by-value" };
                let kind = format!("{}->{}", type_class(src_tid), type_class(tid));
                match r {
                    None => {}
                    Some(Err(p)) => {
                        let props: &[&'static str] = if fits { &["C12"] } else { &["C12", "C19"] };
                        self.report(props, "convert.panic", h, &kind, format!("conversion {} -> {} ({}) of length {} panicked: {}", TYPE_NAMES[src_tid as usize], TYPE_NAMES[tid as usize], form, n, p));
                    }
                    Some(Ok(Err(e))) => {
                        if fits {
                            self.report(&["C12"], "convert.spurious-err", h, &kind, format!("conversion {} -> {} ({}) of length {} failed with {:?} although it fits", TYPE_NAMES[src_tid as usize], TYPE_NAMES[tid as usize], form, n, e));
                        } else {
                            self.bump("c12_capacity_err_observed");
                            if *e != bva::ConvertionError::NotEnoughCapacity {
                                self.report(&["C12"], "convert.wrong-err", h, &kind, format!("expected NotEnoughCapacity, got {:?}", e));
                            }
                        }
                    }
                    Some(Ok(Ok(v))) => {
                        if !fits {
                            self.report(&["C12", "C19"], "convert.missing-err", h, &kind, format!("conversion {} -> {} ({}) of length {} beyond capacity returned Ok (len {})", TYPE_NAMES[src_tid as usize], TYPE_NAMES[tid as usize], form, n, v.len()));
                        } else {
                            let got = abs_string_any(v);
                            if got != want_s {
                                self.report(&["C12"], "convert.value", h, &kind, format!("conversion {} -> {} ({}) gave {} want {}", TYPE_NAMES[src_tid as usize], TYPE_NAMES[tid as usize], form, got, want_s));
                            } else if self.mask.c12 && (all_batteries || (self.step_idx + tid as usize) % 5 == 0) {
                                // a conversion that copied dirty source words passes a get() comparison and fails here
                                let tw = fresh_any(tid, &m);
                                let a = any!(v, x => { let mut o = battery(x, &[], false); o.extend(growth(x)); o });
                                let b = any!(&tw, x => { let mut o = battery(x, &[], false); o.extend(growth(x)); o });
                                self.bump("c12_result_batteries");
                                if let Some((name, x, y)) = first_diff(&a, &b) {
                                    self.report(&["C12"], &format!("convert.battery.{}", strip_idx(&name)), h, &kind, format!("converted value {} -> {} ({}) is not like a fresh vector: observer {} gives {} vs {}", TYPE_NAMES[src_tid as usize], TYPE_NAMES[tid as usize], form, name, x, y));
                                }
                            }
                        }
                    }
                }
                if self.out.violation.is_some() {
                    return;
                }
            }
        }
        // into_inner -> new reproduces the original
        let rt = any!(&self.holders[h].subj, v => guard(|| v.raw_roundtrip().map(|x| (abs_string(&x), x.wrap()))));
        match rt {
            Err(p) => self.report(&["C12"], "raw.panic", h, "raw_trip", format!("into_inner/new panicked: {}", p)),
            Ok(None) => {}
            Ok(Some((s, v))) => {
                if s != want_s {
                    self.report(&["C12"], "raw.value", h, "raw_trip", format!("new(into_inner()) gave {} want {}", s, want_s));
                } else {
                    let eq = any!(&self.holders[h].subj, a => a.cmp_any(&v).eq);
                    if !eq {
                        self.report(&["C12"], "raw.eq", h, "raw_trip", "new(into_inner()) does not compare equal to the original".to_string());
                    }
                }
            }
        }
    }

    /// C10: same-type companions reached by different histories; judged only if bva's own == says equal
    pub fn rider_hash(&mut self, h: usize) {
        let tid = self.holders[h].subj.tid();
        let m = self.holders[h].model.clone();
        self.evaluated("C10");
        self.bump("c10_evals");
        let subj = self.holders[h].subj.clone();
        let step_idx = self.step_idx;
        let res: Result<Vec<(String, bool, String)>, String> = with_type!(tid, T => {
            let s: T = unwrap_as::<T>(subj);
            guard(|| hash_companions::<T>(&s, &m, step_idx))
        });
        match res {
            Err(p) => self.report(&["C10"], "hash.panic", h, "hash", format!("building or hashing a companion panicked: {}", p)),
            Ok(list) => {
                for (name, bad, msg) in list {
                    match name.as_str() {
                        n if n.starts_with("zext") || n == "trim" => self.bump("probe_pair_diff_len"),
                        n if n.starts_with("reserve") || n == "shrink" => self.bump("probe_pair_diff_capacity"),
                        "heap" | "inline" => self.bump("probe_pair_inline_vs_heap"),
                        _ => {}
                    }
                    self.bump("c10_pairs_judged");
                    self.out.nontrivial = true;
                    if bad {
                        self.report(&["C10"], &format!("hash.{}", strip_digits(&name)), h, "hash", msg);
                        return;
                    }
                }
            }
        }
    }
}

fn strip_digits(s: &str) -> String {
    s.chars().filter(|c| !c.is_ascii_digit()).collect()
}

/// returns (companion name, violated?, message) for every pair that bva's own == calls equal
fn hash_companions<T: Subj>(s: &T, m: &[bool], step_idx: usize) -> Vec<(String, bool, String)> {
    let n = m.len();
    let cap_limit = FIXED_CAP[T::TID as usize].unwrap_or(usize::MAX);
    let mut comps: Vec<(String, T)> = vec![];
    comps.push(("fresh".into(), fresh::<T>(m)));
    for j in [1usize, 7, 8, 63, 64, 65] {
        if n + j <= cap_limit {
            let mut c = s.clone();
            c.resize(n + j, Bit::Zero);
            comps.push((format!("zext{}", j), c));
        }
    }
    let sig = model::significant_bits(m);
    if sig < n {
        let mut c = s.clone();
        c.resize(sig, Bit::Zero);
        comps.push(("trim".into(), c));
        let mut c = fresh::<T>(&m[..sig]);
        c.shrink_();
        comps.push(("trim".into(), c));
    }
    if FIXED_CAP[T::TID as usize].is_none() {
        let mut c = s.clone();
        c.reserve_(1 + (step_idx * 37) % 300);
        comps.push(("reserve".into(), c));
        let mut c = s.clone();
        c.shrink_();
        comps.push(("shrink".into(), c));
        if T::TID == TID_BV {
            let mut c = s.clone();
            c.reserve_(INLINE_LIMIT + 70);
            comps.push(("heap".into(), c));
            let mut c = fresh::<T>(m);
            c.shrink_();
            comps.push(("inline".into(), c));
        }
    }
    let mut out = vec![];
    let (ta, fa, sa) = (typed_hash(s), flat_hash(s), sip_hash(s));
    let mut set: HashSet<T, FixedBuild> = HashSet::with_hasher(FixedBuild::default());
    set.insert(s.clone());
    for (name, c) in comps {
        if !(*s == c) {
            continue;
        }
        let (tb, fb, sb) = (typed_hash(&c), flat_hash(&c), sip_hash(&c));
        let found = set.contains(&c);
        let bad = ta != tb || fa != fb || sa != sb || !found;
        let msg = if bad {
            format!(
                "{} values {}:{} and companion '{}' (len {}) compare equal but hash differently: typed {:?} vs {:?}; HashSet finds it: {}",
                TYPE_NAMES[T::TID as usize],
                n,
                model::bits_to_string(m),
                name,
                c.len(),
                ta.events,
                tb.events,
                found
            )
        } else {
            String::new()
        };
        out.push((name, bad, msg));
    }
    out
}
