//! Reference model: a list of bits, index 0 least significant. Bit-at-a-time code with no word
//! tricks. Same interface as the real thing, trivial inside.

pub type Bits = Vec<bool>;

pub fn push(m: &mut Bits, b: bool) {
    m.push(b)
}
pub fn pop(m: &mut Bits) -> Option<bool> {
    m.pop()
}
pub fn resize(m: &mut Bits, n: usize, b: bool) {
    m.resize(n, b)
}
pub fn truncate(m: &mut Bits, n: usize) {
    if n < m.len() {
        m.truncate(n)
    }
}
pub fn sign_extend(m: &mut Bits, n: usize) {
    if n > m.len() {
        let s = m.last().copied().unwrap_or(false);
        m.resize(n, s)
    }
}
pub fn append(m: &mut Bits, x: &[bool]) {
    m.extend_from_slice(x)
}
pub fn prepend(m: &mut Bits, x: &[bool]) {
    let mut r = x.to_vec();
    r.extend_from_slice(m);
    *m = r;
}
pub fn insert(m: &mut Bits, i: usize, x: &[bool]) {
    let tail = m.split_off(i);
    m.extend_from_slice(x);
    m.extend_from_slice(&tail);
}
/// returns the high part, keeps the low part
pub fn split_off(m: &mut Bits, i: usize) -> Bits {
    m.split_off(i)
}

/// C13: ceil(n/8) bytes; Little: byte j carries bits 8j..8j+7, bit 8j least significant, unused
/// high bits of the last byte zero; Big: the same bytes in reverse order.
pub fn enc(m: &[bool], big: bool) -> Vec<u8> {
    let nb = (m.len() + 7) / 8;
    let mut out = vec![0u8; nb];
    for (i, b) in m.iter().enumerate() {
        if *b {
            out[i / 8] |= 1 << (i % 8);
        }
    }
    if big {
        out.reverse();
    }
    out
}

/// inverse of `enc` for `len` bits: surplus high bits of the most significant byte are discarded
pub fn dec(bytes: &[u8], len: usize, big: bool) -> Bits {
    let mut b = bytes.to_vec();
    if big {
        b.reverse();
    }
    (0..len).map(|i| (b[i / 8] >> (i % 8)) & 1 == 1).collect()
}

pub fn leading(m: &[bool], what: bool) -> usize {
    m.iter().rev().take_while(|b| **b == what).count()
}
pub fn trailing(m: &[bool], what: bool) -> usize {
    m.iter().take_while(|b| **b == what).count()
}
pub fn significant_bits(m: &[bool]) -> usize {
    m.len() - leading(m, false)
}
pub fn is_zero(m: &[bool]) -> bool {
    m.iter().all(|b| !*b)
}

pub fn bits_to_string(m: &[bool]) -> String {
    // index 0 first (least significant first) - the trace format's convention
    m.iter().map(|b| if *b { '1' } else { '0' }).collect()
}
pub fn bits_from_string(s: &str) -> Option<Bits> {
    s.chars()
        .map(|c| match c {
            '0' => Some(false),
            '1' => Some(true),
            _ => None,
        })
        .collect()
}
