//! bvsim: deterministic simulation with fault injection for haxelion/bva.
//!   bvsim run --prop C13 --tier quick --seed N --runs N --threads N --out FILE --replay-dir DIR
//!   bvsim replay FILE            re-executes a trace file and prints the violation line (if any)
//!   bvsim selftest --prop C13 --runs N    determinism proof: same records under 1 and 16 workers, twice
mod rng;
#[macro_use]
mod types;
mod battery;
mod exec;
mod gen;
mod guard;
mod model;
mod seams;
mod shrink;
mod trace;

use exec::Outcome;
use std::collections::{BTreeMap, BTreeSet};
use std::sync::atomic::{AtomicU64, Ordering};
use std::sync::Mutex;

pub const PROFILE: &str = if cfg!(debug_assertions) { "dbg" } else { "rel" };
pub const DBG: bool = cfg!(debug_assertions);

fn jstr(s: &str) -> String {
    let mut o = String::from("\"");
    for c in s.chars() {
        match c {
            '"' => o += "\\\"",
            '\\' => o += "\\\\",
            '\n' => o += "\\n",
            '\t' => o += "\\t",
            c if (c as u32) < 0x20 => o += &format!("\\u{:04x}", c as u32),
            c => o.push(c),
        }
    }
    o.push('"');
    o
}

fn arg<'a>(args: &'a [String], name: &str) -> Option<&'a str> {
    args.iter().position(|a| a == name).and_then(|i| args.get(i + 1)).map(|s| s.as_str())
}

#[derive(Clone)]
struct RunRecord {
    idx: u64,
    trace_hash: u64,
    outcome_digest: u64,
}

fn digest_outcome(o: &Outcome) -> u64 {
    let mut s = String::new();
    if let Some(v) = &o.violation {
        s += &format!("{}|{}|{}|{}", v.signature(), v.step, v.msg, v.tname);
    }
    s += &format!("|{:?}|{:?}|{:?}|{}|{}|{:?}", o.stats, o.foreign, o.harness_error, o.oracle_evals, o.nontrivial, o.states);
    let mut h: u64 = 0xcbf29ce484222325;
    for b in s.bytes() {
        h ^= b as u64;
        h = h.wrapping_mul(0x100000001b3);
    }
    h
}

struct Agg {
    stats: BTreeMap<&'static str, u64>,
    foreign: BTreeMap<String, u64>,
    distinct_nontrivial: BTreeSet<u64>,
    distinct_traces: BTreeSet<u64>,
    states: BTreeSet<u32>,
    steps: u64,
    oracle_evals: u64,
    violations: Vec<(u64, trace::Trace, exec::Violation)>,
    harness: Vec<(u64, String)>,
    samples: BTreeMap<&'static str, (u64, String)>,
    records: Vec<RunRecord>,
    recheck_mismatch: Vec<u64>,
    types: BTreeSet<u8>,
}

fn run_batch(prop: &str, tier: gen::Tier, seed: u64, runs: u64, threads: usize, keep_records: bool) -> Agg {
    let agg = Mutex::new(Agg {
        stats: BTreeMap::new(),
        foreign: BTreeMap::new(),
        distinct_nontrivial: BTreeSet::new(),
        distinct_traces: BTreeSet::new(),
        states: BTreeSet::new(),
        steps: 0,
        oracle_evals: 0,
        violations: vec![],
        harness: vec![],
        samples: BTreeMap::new(),
        records: vec![],
        recheck_mismatch: vec![],
        types: BTreeSet::new(),
    });
    let next = AtomicU64::new(0);
    let pidx = gen::prop_index(prop);
    std::thread::scope(|sc| {
        for _ in 0..threads {
            sc.spawn(|| {
                guard::install_hook();
                let mut local_stats: BTreeMap<&'static str, u64> = BTreeMap::new();
                let mut local_foreign: BTreeMap<String, u64> = BTreeMap::new();
                let mut local_nt: Vec<u64> = vec![];
                let mut local_tr: Vec<u64> = vec![];
                let mut local_states: BTreeSet<u32> = BTreeSet::new();
                let mut local_types: BTreeSet<u8> = BTreeSet::new();
                let mut local_steps = 0u64;
                let mut local_evals = 0u64;
                let mut local_records = vec![];
                loop {
                    let idx = next.fetch_add(1, Ordering::Relaxed);
                    if idx >= runs {
                        break;
                    }
                    let rs = rng::derive(seed, pidx, idx);
                    let t = gen::gen(prop, rs, tier);
                    let th = t.hash();
                    let (o, _) = exec::Exec::new(&t, DBG, false).run();
                    // 1 % of runs are re-executed on the spot and compared
                    if idx % 100 == 7 {
                        let (o2, _) = exec::Exec::new(&t, DBG, false).run();
                        if digest_outcome(&o) != digest_outcome(&o2) {
                            agg.lock().unwrap().recheck_mismatch.push(idx);
                        }
                    }
                    for (k, v) in &o.stats {
                        *local_stats.entry(k).or_insert(0) += v;
                    }
                    for (k, v) in &o.foreign {
                        *local_foreign.entry(k.clone()).or_insert(0) += v;
                    }
                    local_tr.push(th);
                    if o.oracle_evals > 0 && o.nontrivial {
                        local_nt.push(th);
                    }
                    for s in &o.states {
                        local_states.insert(*s);
                    }
                    for h in &t.holders {
                        local_types.insert(h.tid);
                    }
                    local_steps += o.steps_run as u64;
                    local_evals += o.oracle_evals;
                    if keep_records {
                        local_records.push(RunRecord { idx, trace_hash: th, outcome_digest: digest_outcome(&o) });
                    }
                    let hard = o.stats.keys().any(|k| k.contains("hard") || k.contains("F4") || k.contains("zero_write") || *k == "panic_bva" || *k == "survivor_observed");
                    let class: &'static str = if !o.nontrivial { "fault_free" } else if hard { "hard_fault_or_survivor" } else { "benign_faults_or_perturbations" };
                    if o.harness_error.is_some() || o.violation.is_some() || idx < 400 {
                        let mut a = agg.lock().unwrap();
                        if let Some(e) = &o.harness_error {
                            a.harness.push((idx, e.clone()));
                        }
                        if let Some(v) = &o.violation {
                            a.violations.push((idx, t.clone(), v.clone()));
                        }
                        if o.violation.is_none() && o.oracle_evals > 0 {
                            let better = match a.samples.get(class) {
                                None => true,
                                Some((i, _)) => idx < *i,
                            };
                            if better {
                                a.samples.insert(class, (idx, t.to_text()));
                            }
                        }
                    }
                }
                let mut a = agg.lock().unwrap();
                for (k, v) in local_stats {
                    *a.stats.entry(k).or_insert(0) += v;
                }
                for (k, v) in local_foreign {
                    *a.foreign.entry(k).or_insert(0) += v;
                }
                a.distinct_nontrivial.extend(local_nt);
                a.distinct_traces.extend(local_tr);
                a.states.extend(local_states);
                a.types.extend(local_types);
                a.steps += local_steps;
                a.oracle_evals += local_evals;
                a.records.extend(local_records);
            });
        }
    });
    let mut a = agg.into_inner().unwrap();
    a.violations.sort_by_key(|v| v.0);
    a.harness.sort_by_key(|v| v.0);
    a.records.sort_by_key(|r| r.idx);
    a
}

fn cmd_run(args: &[String]) -> i32 {
    let prop = arg(args, "--prop").expect("--prop");
    let tier = if arg(args, "--tier") == Some("thorough") { gen::Tier::Thorough } else { gen::Tier::Quick };
    let seed: u64 = arg(args, "--seed").and_then(|s| s.parse().ok()).unwrap_or(20261002);
    let runs: u64 = arg(args, "--runs").and_then(|s| s.parse().ok()).unwrap_or(1000);
    let threads: usize = arg(args, "--threads").and_then(|s| s.parse().ok()).unwrap_or(16);
    let out = arg(args, "--out").expect("--out");
    let replay_dir = arg(args, "--replay-dir").unwrap_or("replays");
    let max_report: usize = arg(args, "--max-report").and_then(|s| s.parse().ok()).unwrap_or(6);
    let t0 = std::time::Instant::now();
    let a = run_batch(prop, tier, seed, runs, threads, false);
    let sim_s = t0.elapsed().as_secs_f64();
    // ---- violations: group by signature (first occurrence by run index), shrink, write replay files
    let mut seen: BTreeMap<String, usize> = BTreeMap::new();
    let mut reported = vec![];
    for (idx, t, v) in &a.violations {
        let sig = v.signature();
        let c = seen.entry(sig.clone()).or_insert(0);
        *c += 1;
        if *c > 1 || reported.len() >= max_report {
            continue;
        }
        let (mut small, execs) = shrink::shrink(t, DBG, &sig, 2000);
        let o = shrink::run_trace(&small, DBG);
        let vv = o.violation.clone().expect("shrunk trace must still violate");
        small.profile = Some(PROFILE.to_string());
        small.expect = Some(vv.line(prop));
        let _ = std::fs::create_dir_all(replay_dir);
        let path = format!("{}/{}-{}-{}-{:016x}.trace", replay_dir, prop, PROFILE, seed, small.hash());
        std::fs::write(&path, small.to_text()).expect("write replay");
        reported.push((*idx, sig, vv, path, t.steps.len(), small.steps.len(), execs));
    }
    // ---- evidence part (merged by ./check)
    let mut j = String::from("{\n");
    j += &format!(" \"property_id\": {},\n \"profile\": {},\n \"seed\": {},\n \"runs\": {},\n \"threads\": {},\n", jstr(prop), jstr(PROFILE), seed, runs, threads);
    j += &format!(" \"tier\": {},\n", jstr(if tier == gen::Tier::Quick { "quick" } else { "thorough" }));
    j += &format!(" \"sim_wall_s\": {:.3},\n \"wall_s\": {:.3},\n", sim_s, t0.elapsed().as_secs_f64());
    j += &format!(" \"runs_per_hour\": {},\n", if sim_s > 0.0 { (runs as f64 / sim_s * 3600.0) as u64 } else { 0 });
    j += &format!(" \"steps_total\": {},\n \"oracle_evaluations\": {},\n", a.steps, a.oracle_evals);
    j += &format!(" \"distinct_traces\": {},\n \"distinct_nontrivial\": {},\n \"distinct_states\": {},\n", a.distinct_traces.len(), a.distinct_nontrivial.len(), a.states.len());
    j += &format!(" \"types_exercised\": [{}],\n", a.types.iter().map(|t| jstr(types::TYPE_NAMES[*t as usize])).collect::<Vec<_>>().join(", "));
    j += &format!(" \"counters\": {{{}}},\n", a.stats.iter().map(|(k, v)| format!("{}: {}", jstr(k), v)).collect::<Vec<_>>().join(", "));
    j += &format!(" \"foreign_observations\": {{{}}},\n", a.foreign.iter().map(|(k, v)| format!("{}: {}", jstr(k), v)).collect::<Vec<_>>().join(", "));
    j += &format!(" \"recheck_mismatches\": {},\n", a.recheck_mismatch.len());
    j += &format!(" \"harness_errors\": [{}],\n", a.harness.iter().take(5).map(|(i, e)| jstr(&format!("run {}: {}", i, e))).collect::<Vec<_>>().join(", "));
    j += &format!(" \"harness_error_count\": {},\n", a.harness.len());
    j += &format!(" \"violating_runs\": {},\n", a.violations.len());
    j += &format!(" \"violation_signatures\": {{{}}},\n", seen.iter().map(|(k, v)| format!("{}: {}", jstr(k), v)).collect::<Vec<_>>().join(", "));
    j += " \"violations\": [\n";
    j += &reported
        .iter()
        .map(|(idx, sig, v, path, n0, n1, execs)| {
            format!(
                "  {{\"run\": {}, \"signature\": {}, \"oracle\": {}, \"kind\": {}, \"type\": {}, \"message\": {}, \"replay\": {}, \"steps_before\": {}, \"steps_after\": {}, \"shrink_execs\": {}, \"count\": {}}}",
                idx,
                jstr(sig),
                jstr(&v.oracle),
                jstr(&v.kind),
                jstr(&v.tname),
                jstr(&v.msg),
                jstr(path),
                n0,
                n1,
                execs,
                seen[sig]
            )
        })
        .collect::<Vec<_>>()
        .join(",\n");
    j += "\n ],\n";
    j += &format!(" \"samples\": [{}]\n}}\n", a.samples.iter().map(|(k, (i, t))| format!("{{\"class\": {}, \"run\": {}, \"trace\": {}}}", jstr(k), i, jstr(t))).collect::<Vec<_>>().join(", "));
    std::fs::write(out, j).expect("write evidence part");
    if !a.harness.is_empty() || !a.recheck_mismatch.is_empty() {
        eprintln!("bvsim: harness errors: {:?} recheck mismatches: {:?}", a.harness.iter().take(3).collect::<Vec<_>>(), a.recheck_mismatch);
        return 2;
    }
    if a.violations.is_empty() {
        0
    } else {
        1
    }
}

fn cmd_replay(args: &[String]) -> i32 {
    let path = &args[2];
    let verbose = args.iter().any(|a| a == "-v");
    let text = match std::fs::read_to_string(path) {
        Ok(t) => t,
        Err(e) => {
            eprintln!("bvsim: cannot read {}: {}", path, e);
            return 2;
        }
    };
    let t = match trace::Trace::parse(&text) {
        Ok(t) => t,
        Err(e) => {
            eprintln!("bvsim: cannot parse {}: {}", path, e);
            return 2;
        }
    };
    if let Some(p) = &t.profile {
        if p != PROFILE {
            eprintln!("bvsim: trace is for profile {} but this binary is {}", p, PROFILE);
            return 3;
        }
    }
    let (o, log) = exec::Exec::new(&t, DBG, verbose).run();
    if verbose {
        for l in log.unwrap_or_default() {
            println!("  {}", l);
        }
    }
    if let Some(e) = &o.harness_error {
        eprintln!("bvsim: harness error: {}", e);
        return 2;
    }
    match &o.violation {
        Some(v) => {
            let line = v.line(&t.property);
            println!("{}", line);
            println!("signature {}", v.signature());
            println!("message {}", v.msg);
            if let Some(e) = &t.expect {
                // --lenient: any violation on this history counts (used for pinned traces of recorded findings)
                if *e != line && !args.iter().any(|a| a == "--lenient") {
                    println!("MISMATCH expected: {}", e);
                    return 2;
                }
            }
            1
        }
        None => {
            println!("no violation");
            if t.expect.is_some() && !args.iter().any(|a| a == "--allow-pass") {
                println!("MISMATCH expected: {}", t.expect.unwrap());
                return 4;
            }
            0
        }
    }
}

fn cmd_selftest(args: &[String]) -> i32 {
    let runs: u64 = arg(args, "--runs").and_then(|s| s.parse().ok()).unwrap_or(2000);
    let seed: u64 = arg(args, "--seed").and_then(|s| s.parse().ok()).unwrap_or(20261002);
    let props: Vec<String> = match arg(args, "--prop") {
        Some(p) => vec![p.to_string()],
        None => ["C03", "C07", "C10", "C12", "C13", "C16", "C17", "C18", "C19"].iter().map(|s| s.to_string()).collect(),
    };
    let mut bad = 0;
    for p in &props {
        let a = run_batch(p, gen::Tier::Quick, seed, runs, 1, true);
        let b = run_batch(p, gen::Tier::Quick, seed, runs, 16, true);
        let c = run_batch(p, gen::Tier::Quick, seed, runs, 5, true);
        let mut diff = 0;
        for ((x, y), z) in a.records.iter().zip(b.records.iter()).zip(c.records.iter()) {
            if x.idx != y.idx || x.trace_hash != y.trace_hash || x.outcome_digest != y.outcome_digest || z.outcome_digest != x.outcome_digest || z.trace_hash != x.trace_hash {
                diff += 1;
            }
        }
        let mut all: u64 = 0xcbf29ce484222325;
        for r in &a.records {
            all = (all ^ r.trace_hash ^ r.outcome_digest.rotate_left(13)).wrapping_mul(0x100000001b3);
        }
        println!("selftest {} profile={} runs={} workers=1/16/5 differing_records={} batch_digest={:016x}", p, PROFILE, runs, diff, all);
        if diff > 0 || a.records.len() != runs as usize {
            bad += 1;
        }
    }
    if bad > 0 {
        2
    } else {
        0
    }
}

fn main() {
    guard::install_hook();
    let args: Vec<String> = std::env::args().collect();
    let code = match args.get(1).map(|s| s.as_str()) {
        Some("run") => cmd_run(&args),
        Some("replay") if args.len() >= 3 => cmd_replay(&args),
        Some("selftest") => cmd_selftest(&args),
        Some("gen") => {
            let prop = arg(&args, "--prop").expect("--prop");
            let seed: u64 = arg(&args, "--seed").and_then(|s| s.parse().ok()).unwrap_or(1);
            print!("{}", gen::gen(prop, seed, gen::Tier::Quick).to_text());
            0
        }
        _ => {
            eprintln!("usage: bvsim run|replay|selftest|gen ...");
            2
        }
    };
    std::process::exit(code);
}
