mod rng;
#[macro_use]
mod types;
mod battery;
mod exec;
mod guard;
mod model;
mod seams;
mod trace;

fn main() {
    guard::install_hook();
    let args: Vec<String> = std::env::args().collect();
    let dbg = cfg!(debug_assertions);
    match args.get(1).map(|s| s.as_str()) {
        Some("replay") => {
            let text = std::fs::read_to_string(&args[2]).expect("read trace");
            let t = trace::Trace::parse(&text).expect("parse trace");
            let (out, log) = exec::Exec::new(&t, dbg, true).run();
            for l in log.unwrap_or_default() {
                println!("  {}", l);
            }
            println!("{:?}", out);
        }
        _ => eprintln!("usage"),
    }
}
