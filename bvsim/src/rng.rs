//! xoshiro256** seeded through splitmix64. The generator is the only consumer.
#[derive(Clone)]
pub struct Rng {
    s: [u64; 4],
}

pub fn splitmix(x: &mut u64) -> u64 {
    *x = x.wrapping_add(0x9E37_79B9_7F4A_7C15);
    let mut z = *x;
    z = (z ^ (z >> 30)).wrapping_mul(0xBF58_476D_1CE4_E5B9);
    z = (z ^ (z >> 27)).wrapping_mul(0x94D0_49BB_1331_11EB);
    z ^ (z >> 31)
}

/// Derive a per-run seed from (VERIF_SEED, property, profile-independent run index).
pub fn derive(seed: u64, prop: u64, run: u64) -> u64 {
    let mut x = seed ^ prop.wrapping_mul(0xA24B_AED4_963E_E407) ^ run.wrapping_mul(0x9FB2_1C65_1E98_DF25);
    let a = splitmix(&mut x);
    let b = splitmix(&mut x);
    a ^ b.rotate_left(17)
}

impl Rng {
    pub fn new(seed: u64) -> Self {
        let mut x = seed;
        let s = [splitmix(&mut x), splitmix(&mut x), splitmix(&mut x), splitmix(&mut x)];
        Rng { s }
    }
    pub fn next(&mut self) -> u64 {
        let r = self.s[1].wrapping_mul(5).rotate_left(7).wrapping_mul(9);
        let t = self.s[1] << 17;
        self.s[2] ^= self.s[0];
        self.s[3] ^= self.s[1];
        self.s[1] ^= self.s[2];
        self.s[0] ^= self.s[3];
        self.s[2] ^= t;
        self.s[3] = self.s[3].rotate_left(45);
        r
    }
    /// uniform in 0..n (n > 0)
    pub fn below(&mut self, n: u64) -> u64 {
        debug_assert!(n > 0);
        ((self.next() as u128 * n as u128) >> 64) as u64
    }
    pub fn range(&mut self, lo: u64, hi_incl: u64) -> u64 {
        lo + self.below(hi_incl - lo + 1)
    }
    pub fn chance(&mut self, num: u64, den: u64) -> bool {
        self.below(den) < num
    }
    pub fn bool(&mut self) -> bool {
        self.next() & 1 == 1
    }
    pub fn pick<'a, T>(&mut self, xs: &'a [T]) -> &'a T {
        &xs[self.below(xs.len() as u64) as usize]
    }
    /// index drawn according to integer weights (sum > 0)
    pub fn weighted(&mut self, w: &[u32]) -> usize {
        let total: u64 = w.iter().map(|&x| x as u64).sum();
        let mut r = self.below(total);
        for (i, &x) in w.iter().enumerate() {
            if r < x as u64 {
                return i;
            }
            r -= x as u64;
        }
        w.len() - 1
    }
    pub fn u128(&mut self) -> u128 {
        ((self.next() as u128) << 64) | self.next() as u128
    }
}
