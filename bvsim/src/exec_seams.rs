// included into exec.rs: steps that go through simulator-owned seams (Read, Write, Iterator)

use std::iter::Rev;

enum It<I: DoubleEndedIterator<Item = Bit>> {
    L0(I),
    L1(Rev<I>),
    L2(Rev<Rev<I>>),
}

macro_rules! it_each {
    ($s:expr, $i:ident => $body:expr) => {
        match $s {
            It::L0($i) => $body,
            It::L1($i) => $body,
            It::L2($i) => $body,
        }
    };
}

impl<I: DoubleEndedIterator<Item = Bit>> It<I> {
    fn rev(self) -> Self {
        match self {
            It::L0(i) => It::L1(i.rev()),
            It::L1(i) => It::L2(i.rev()),
            l2 => l2,
        }
    }
    fn call(&mut self, code: u8, k: usize) -> String {
        match code {
            0 => format!("{:?}", it_each!(self, i => i.next())),
            1 => format!("{:?}", it_each!(self, i => i.next_back())),
            2 => format!("{:?}", it_each!(self, i => i.nth(k))),
            3 => format!("{:?}", it_each!(self, i => i.nth_back(k))),
            4 => format!("{:?}", it_each!(self, i => i.size_hint())),
            _ => String::new(),
        }
    }
    fn consume(self, code: u8) -> String {
        match code {
            6 => format!("{:?}", it_each!(self, i => i.count())),
            7 => format!("{:?}", it_each!(self, i => i.last())),
            _ => format!("{:?}", it_each!(self, i => i.collect::<Vec<Bit>>())),
        }
    }
}

/// C17: the same call sequence on bva's iterator and on a slice iterator over the list of bits
fn open_iter<T: Subj>(v: &T, via_into: bool) -> bva::BitIterator<'_, T> {
    if via_into {
        v.into_iter_ref()
    } else {
        v.iter()
    }
}

fn iter_lockstep<T: Subj>(v: &T, bits: &[Bit], calls: &[(u8, u64)], via_into: bool) -> Result<(u64, u64), (String, String)> {
    let mut a = Some(It::L0(open_iter(v, via_into)));
    let mut b = Some(It::L0(bits.iter().copied()));
    let mut ncalls = 0u64;
    let mut big_args = 0u64;
    for (idx, (code, k)) in calls.iter().enumerate() {
        let k = *k as usize;
        ncalls += 1;
        if k > bits.len() + 1 {
            big_args += 1;
        }
        match *code {
            0..=4 => {
                let mut ia = a.take().unwrap();
                let ra = guard(|| {
                    let r = ia.call(*code, k);
                    (r, ia)
                });
                let rb = b.as_mut().unwrap().call(*code, k);
                match ra {
                    Err(p) => return Err((format!("iter.{}.panic", ITER_CALLS[*code as usize]), format!("call #{} {}({}) panicked: {}", idx, ITER_CALLS[*code as usize], k, p))),
                    Ok((r, ia)) => {
                        if r != rb {
                            return Err((format!("iter.{}", ITER_CALLS[*code as usize]), format!("call #{} {}({}) returned {} but a slice iterator returns {}", idx, ITER_CALLS[*code as usize], k, r, rb)));
                        }
                        a = Some(ia);
                    }
                }
            }
            5 => {
                a = Some(a.take().unwrap().rev());
                b = Some(b.take().unwrap().rev());
            }
            6..=8 => {
                let ia = a.take().unwrap();
                let ra = guard(|| ia.consume(*code));
                let rb = b.take().unwrap().consume(*code);
                match ra {
                    Err(p) => return Err((format!("iter.{}.panic", ITER_CALLS[*code as usize]), format!("call #{} {} panicked: {}", idx, ITER_CALLS[*code as usize], p))),
                    Ok(r) => {
                        if r != rb {
                            return Err((format!("iter.{}", ITER_CALLS[*code as usize]), format!("call #{} {} returned {} but a slice iterator returns {}", idx, ITER_CALLS[*code as usize], r, rb)));
                        }
                    }
                }
                a = Some(It::L0(open_iter(v, via_into)));
                b = Some(It::L0(bits.iter().copied()));
            }
            _ => {}
        }
    }
    Ok((ncalls, big_args))
}

impl<'t> Exec<'t> {
    fn do_iter(&mut self, st: &Step, h: usize) {
        let m = self.holders[h].model.clone();
        let bits: Vec<Bit> = m.iter().map(|b| b2bit(*b)).collect();
        self.evaluated("C17");
        self.bump("c17_sequences");
        let r = any!(&self.holders[h].subj, v => iter_lockstep(v, &bits, &st.calls, st.bit));
        match r {
            Err((oracle, msg)) => self.report(&["C17"], &oracle, h, "iter", format!("on {}:{}: {}", m.len(), model::bits_to_string(&m), msg)),
            Ok((n, big)) => {
                self.bump_by("c17_calls", n);
                self.bump_by("probe_iter_arg_beyond_len", big);
                if st.calls.iter().any(|(c, k)| (*c == 2 || *c == 3) && *k > u64::MAX / 2) {
                    self.bump("probe_iter_arg_near_usize_max");
                    self.out.nontrivial = true;
                }
                if st.calls.iter().any(|(c, _)| *c == 5) {
                    self.bump("probe_iter_rev");
                }
                if st.calls.len() >= 2 {
                    self.out.nontrivial = true;
                }
            }
        }
        if !self.check_len_cap(h, "iter", false) {
            return;
        }
        let after = any!(&self.holders[h].subj, v => abs(v));
        if after != m {
            self.report(&["C17"], "iter.mutated", h, "iter", "iterating changed the vector".to_string());
        }
    }

    fn do_send(&mut self, st: &Step, h: usize) {
        let p = (st.a % 2) as usize;
        if self.pipes[p].broken {
            self.bump("skipped_steps");
            return;
        }
        let m = self.holders[h].model.clone();
        let want = model::enc(&m, st.big);
        let mut w = SimWriter::new(&st.script);
        let r = any!(&self.holders[h].subj, v => guard(|| v.write(&mut w, end(st.big)).map_err(|e| e.kind())));
        let stats = w.stats.clone();
        let sink = std::mem::take(&mut w.sink);
        self.evaluated("C13");
        self.bump("c13_sends");
        self.bump_by("fault_W1_short_write", stats.short as u64);
        self.bump_by("fault_W2_eintr", stats.eintr as u64);
        self.bump_by("fault_W3_hard_error", stats.hard as u64);
        self.bump_by("fault_W4_zero_write", stats.zero as u64);
        if stats.short + stats.eintr + stats.hard + stats.zero > 0 {
            self.out.nontrivial = true;
        }
        if m.is_empty() {
            self.bump("probe_zero_len_message");
        }
        let hard = stats.hard + stats.zero > 0;
        if stats.budget_exhausted {
            self.report(&["C13"], "W.nonterminating", h, "write", format!("write did not finish within {} writer calls", CALL_BUDGET));
            return;
        }
        match r {
            Err(pm) => {
                self.report(&["C13"], "W.panic", h, "write", format!("write panicked: {}", pm));
                return;
            }
            Ok(res) => {
                if hard {
                    self.bump("probe_hard_write_mid_message");
                    if res.is_ok() {
                        self.report(&["C13"], "W-hard.ok", h, "write", "the sink failed for good but write returned Ok".to_string());
                        return;
                    }
                    if sink.len() > want.len() || sink[..] != want[..sink.len()] {
                        self.report(&["C13"], "W-hard.prefix", h, "write", format!("after a sink failure the bytes accepted so far {:02x?} are not a prefix of {:02x?}", sink, want));
                        return;
                    }
                    // sender crash: a prefix of the message is in the pipe
                    let nbytes = sink.len();
                    self.pipes[p].bytes.extend(sink.iter());
                    self.pipes[p].msgs.push_back(Msg { bits: m, big: st.big, nbytes, junk: false, partial: true, corrupted: false });
                    self.pipes[p].broken = true;
                } else {
                    if let Err(k) = res {
                        self.report(&["C13"], "W-ok.err", h, "write", format!("only benign sink behaviour (short writes, EINTR) but write returned Err({:?})", k));
                        return;
                    }
                    if sink != want {
                        self.report(
                            &["C13"],
                            "W-ok.bytes",
                            h,
                            "write",
                            format!("{} bits {} {}: sink got {:02x?} want {:02x?}", m.len(), model::bits_to_string(&m), if st.big { "big" } else { "little" }, sink, want),
                        );
                        return;
                    }
                    // sampled cross-check: to_vec agrees with what the sink received
                    let tv = any!(&self.holders[h].subj, v => guard(|| v.to_vec(end(st.big))));
                    if tv.as_ref().ok() != Some(&want) {
                        self.report(&["C13"], "to_vec.bytes", h, "to_vec", format!("to_vec gave {:02x?} want {:02x?}", tv, want));
                        return;
                    }
                    let nbytes = sink.len();
                    self.pipes[p].bytes.extend(sink.iter());
                    self.pipes[p].msgs.push_back(Msg { bits: m, big: st.big, nbytes, junk: false, partial: false, corrupted: false });
                }
            }
        }
    }

    fn do_corrupt(&mut self, st: &Step) {
        let p = (st.a % 2) as usize;
        let pipe = &mut self.pipes[p];
        let mut off = 0usize;
        let mut target: Option<(usize, usize)> = None;
        for (i, m) in pipe.msgs.iter().enumerate() {
            if !m.junk && !m.partial && m.bits.len() % 8 != 0 {
                target = Some((i, off));
            }
            off += m.nbytes;
        }
        if let Some((i, off)) = target {
            let m = &mut pipe.msgs[i];
            let n = m.bits.len();
            let at = if m.big { off } else { off + m.nbytes - 1 };
            let surplus: u8 = !(((1u16 << (n % 8)) - 1) as u8);
            let pat: u8 = match st.b % 3 {
                0 => 0xff,
                1 => (st.b >> 8) as u8 | 0x80,
                _ => 0x80,
            };
            pipe.bytes[at] |= surplus & pat;
            m.corrupted = true;
            self.bump("fault_F5_padding_corruption");
            self.out.nontrivial = true;
        } else {
            self.bump("skipped_steps");
        }
    }

    fn do_junk(&mut self, st: &Step) {
        let p = (st.a % 2) as usize;
        if self.pipes[p].broken {
            self.bump("skipped_steps");
            return;
        }
        let mut bytes = pack_bytes(&st.items);
        if bytes.is_empty() {
            bytes.push(0xa5);
        }
        let n = bytes.len();
        self.pipes[p].bytes.extend(bytes.iter());
        self.pipes[p].msgs.push_back(Msg { bits: vec![], big: false, nbytes: n, junk: true, partial: false, corrupted: false });
        self.bump("fault_F6_trailing_data_queued");
    }

    fn do_trunc(&mut self, st: &Step) {
        let p = (st.a % 2) as usize;
        let pipe = &mut self.pipes[p];
        match pipe.msgs.back_mut() {
            Some(m) if !m.junk && !m.partial && m.nbytes > 0 => {
                let k = 1 + (st.b as usize) % m.nbytes;
                for _ in 0..k {
                    pipe.bytes.pop_back();
                }
                m.nbytes -= k;
                m.partial = true;
                pipe.broken = true;
                self.bump("fault_F4_truncated_message");
                self.out.nontrivial = true;
            }
            _ => self.bump("skipped_steps"),
        }
    }

    fn reset_pipe(&mut self, p: usize) {
        self.pipes[p].bytes.clear();
        self.pipes[p].msgs.clear();
        self.pipes[p].broken = false;
    }

    fn do_recv(&mut self, st: &Step, h: usize) {
        let p = (st.a % 2) as usize;
        // junk in front of the next message belongs to the application: drain it
        while matches!(self.pipes[p].msgs.front(), Some(m) if m.junk) {
            let m = self.pipes[p].msgs.pop_front().unwrap();
            for _ in 0..m.nbytes {
                self.pipes[p].bytes.pop_front();
            }
        }
        let tid = self.holders[h].subj.tid();
        let msg = match self.pipes[p].msgs.pop_front() {
            Some(m) => m,
            None => {
                // R-zero: a zero-length read succeeds and consumes nothing, even on an empty pipe
                Msg { bits: vec![], big: st.big, nbytes: 0, junk: false, partial: false, corrupted: false }
            }
        };
        let n = msg.bits.len();
        let need = (n + 7) / 8;
        let behind = self.pipes[p].bytes.len().saturating_sub(msg.nbytes);
        let fits = n <= maxlen(tid, usize::MAX);
        let avail_for_msg = msg.nbytes;
        let mut pipe_bytes = std::mem::take(&mut self.pipes[p].bytes);
        let before_len = pipe_bytes.len();
        let (r, stats, delivered_at_fault) = {
            let mut rd = SimReader::new(&mut pipe_bytes, &st.script);
            let r = with_type!(tid, T => guard(|| T::read(&mut rd, n, end(msg.big)).map(|v| v.wrap()).map_err(|e| e.kind())));
            (r, rd.stats.clone(), rd.delivered_at_fault)
        };
        self.pipes[p].bytes = pipe_bytes;
        let consumed = before_len - self.pipes[p].bytes.len();
        self.evaluated("C13");
        self.bump("c13_recvs");
        self.bump_by("fault_F1_short_read", stats.short as u64);
        self.bump_by("fault_F2_eintr", stats.eintr as u64);
        self.bump_by("fault_F3_hard_error", stats.hard as u64);
        self.bump_by("fault_F4_eof_zero", stats.zero as u64);
        if stats.short + stats.eintr + stats.hard + stats.zero > 0 {
            self.out.nontrivial = true;
        }
        if behind > 0 {
            self.bump("fault_F6_trailing_data_behind_read");
        }
        if TYPE_NAMES[tid as usize] != "" && msg.corrupted {
            if matches!(type_class(tid), "Bvf-multiword") {
                self.bump("probe_padding_corrupted_multiword_fixed_receiver");
            }
            if tid == TID_BV && n <= INLINE_LIMIT {
                self.bump("probe_padding_corrupted_inline_bv");
            }
        }
        if n == 0 {
            self.bump("probe_zero_len_message");
        }
        let kind = "read";
        if stats.budget_exhausted {
            self.report(&["C13"], "R.nonterminating", h, kind, format!("read did not finish within {} reader calls", CALL_BUDGET));
            return;
        }
        let res = match r {
            Err(pm) => {
                let props: &[&'static str] = if fits { &["C13"] } else { &["C13", "C19"] };
                self.report(props, "R.panic", h, kind, format!("read of {} bits panicked: {}", n, pm));
                return;
            }
            Ok(res) => res,
        };
        let hard = stats.hard + stats.zero > 0;
        if !fits {
            // F7: the receiver's fixed capacity is smaller than the requested length
            self.bump("fault_F7_over_capacity_request");
            self.bump("probe_read_over_capacity");
            self.out.nontrivial = true;
            self.evaluated("C19");
            if res.is_ok() {
                self.report(&["C13", "C19"], "R-cap.ok", h, kind, format!("read of {} bits into capacity {} returned Ok", n, maxlen(tid, usize::MAX)));
                return;
            }
            if consumed == 0 && !msg.partial {
                for _ in 0..msg.nbytes {
                    self.pipes[p].bytes.pop_front();
                }
            } else {
                self.reset_pipe(p);
            }
            return;
        }
        if msg.partial || avail_for_msg < need {
            // F4: sender crashed mid-message / message truncated: short input
            self.bump("probe_truncated_message_read");
            if res.is_ok() {
                self.report(&["C13"], "R-hard.ok", h, kind, format!("only {} of {} bytes were available but read returned Ok", avail_for_msg, need));
                return;
            }
            self.reset_pipe(p);
            return;
        }
        if hard {
            let at = delivered_at_fault.unwrap_or(0);
            if at == 0 {
                self.bump("probe_fault_first_byte");
            }
            if at + 1 == need {
                self.bump("probe_fault_last_byte");
            }
            if at < need {
                if res.is_ok() {
                    self.report(&["C13"], "R-hard.ok", h, kind, format!("the reader failed for good after {} of {} bytes but read returned Ok", at, need));
                    return;
                }
            } else {
                self.bump("c13_unjudged_fault_after_completion");
            }
            self.reset_pipe(p);
            return;
        }
        // R-ok: only benign reader behaviour
        let v = match res {
            Err(k) => {
                self.report(&["C13"], "R-ok.err", h, kind, format!("only benign reader behaviour (short reads, EINTR) and {} bytes available, but read of {} bits returned Err({:?})", avail_for_msg, n, k));
                return;
            }
            Ok(v) => v,
        };
        if consumed != need {
            self.report(&["C13"], "R-ok.consumed", h, kind, format!("read of {} bits consumed {} bytes instead of {}", n, consumed, need));
            return;
        }
        if v.len() != n {
            self.report(&["C13"], "R-ok.len", h, kind, format!("read of {} bits returned a vector of length {}", n, v.len()));
            return;
        }
        self.holders[h].subj = v;
        self.holders[h].tainted = false;
        if !self.check_len_cap(h, kind, false) {
            return;
        }
        let got = any!(&self.holders[h].subj, x => abs(x));
        if got != msg.bits {
            self.report(&["C13"], "R-ok.bits", h, kind, format!("read returned {} want {}", model::bits_to_string(&got), model::bits_to_string(&msg.bits)));
            self.holders[h].model = got;
            return;
        }
        self.holders[h].model = got;
        // surplus bits must have been discarded: they do not change get(), they change the bytes
        for big in [false, true] {
            let want = model::enc(&msg.bits, big);
            let tv = any!(&self.holders[h].subj, x => guard(|| x.to_vec(end(big))));
            if tv.as_ref().ok() != Some(&want) {
                self.report(&["C13"], "R-ok.to_vec", h, kind, format!("after read of {} bits{} to_vec gives {:02x?} want {:02x?}", n, if msg.corrupted { " (surplus bits set on the wire)" } else { "" }, tv, want));
                return;
            }
            let wr = any!(&self.holders[h].subj, x => guard(|| { let mut s: Vec<u8> = vec![]; x.write(&mut s, end(big)).map(|_| s).map_err(|e| e.kind()) }));
            if wr.as_ref().ok().and_then(|r| r.as_ref().ok()) != Some(&want) {
                self.report(&["C13"], "R-ok.rewrite", h, kind, format!("re-writing the vector read gives {:?} want {:02x?}", wr, want));
                return;
            }
        }
        // sampled cross-check: from_bytes(to_vec(v)) is v zero-extended to whole bytes
        if need * 8 <= maxlen(tid, usize::MAX) {
            let bytes = model::enc(&msg.bits, msg.big);
            let fb = with_type!(tid, T => guard(|| T::from_bytes(&bytes, end(msg.big)).map(|x| abs_string(&x))));
            let mut ext = msg.bits.clone();
            ext.resize(need * 8, false);
            let want = format!("{}:{}", ext.len(), model::bits_to_string(&ext));
            match fb {
                Ok(Ok(s)) if s == want => {}
                other => {
                    self.report(&["C13"], "from_bytes", h, "from_bytes", format!("from_bytes({:02x?}) gave {:?} want {}", bytes, other, want));
                    return;
                }
            }
        }
        self.after_step(h, Kind::Recv, "read");
    }

    fn final_pipe_checks(&mut self) {
        for p in 0..self.pipes.len() {
            let total: usize = self.pipes[p].msgs.iter().map(|m| m.nbytes).sum();
            if total != self.pipes[p].bytes.len() {
                self.out.harness_error = Some(format!("pipe {} accounting: {} bytes queued, messages account for {}", p, self.pipes[p].bytes.len(), total));
            }
        }
    }
}
