#!/bin/sh
# builds the simulator in both profiles from files on disk only
cd "$(dirname "$0")" && exec ./check build
