# Deliberate breakages used to prove that the checks are sensitive (DESIGN.md section 7).
# Each entry: id, property whose check must catch it (or must stay green for negative controls),
# file under /repo/src, exact old text (must be unique), new text, expectation.
FX, DY, AU, IT, LB = "fixed.rs", "dynamic.rs", "auto.rs", "iter.rs", "lib.rs"

M = []


def m(id, prop, file, old, new, expect="caught", note="", count=1):
    M.append(dict(id=id, prop=prop, file=file, old=old, new=new, expect=expect, note=note, count=count))


# ---------------------------------------------------------------- C13
m("c13-read-once-bvd", "C13", DY, "reader.read_exact(&mut buf[..])?;", "let _n = reader.read(&mut buf[..])?;", note="read_exact -> one read call: R-ok under short reads")
m("c13-read-once-bvf", "C13", FX, "reader.read_exact(&mut buf[..])?;", "let _n = reader.read(&mut buf[..])?;")
m("c13-write-once-bvd", "C13", DY, "writer.write_all(self.to_vec(endianness).as_slice())", "writer.write(self.to_vec(endianness).as_slice()).map(|_| ())", note="write_all -> write: W-ok under short writes")
m("c13-write-once-bvf", "C13", FX, "writer.write_all(self.to_vec(endianness).as_slice())", "writer.write(self.to_vec(endianness).as_slice()).map(|_| ())")
m("c13-no-mask-bvd", "C13", DY, """        if let Some(l) = bv.data.last_mut() {
            *l &= u64::mask(length.wrapping_sub(1) % Self::BIT_UNIT + 1);
        }
        bv.length = length;""", "        bv.length = length;", note="drop the post-read mask: surplus bits kept")
m("c13-num-bytes-plus1", "C13", DY, """        let num_bytes = (length + 7) / 8;
        let mut buf: Vec<u8> = repeat(0u8).take(num_bytes).collect();
        reader.read_exact""", """        let num_bytes = length / 8 + 1;
        let mut buf: Vec<u8> = repeat(0u8).take(num_bytes).collect();
        reader.read_exact""", note="consumes one byte too many when len % 8 == 0")
m("c13-swallow-error", "C13", DY, "reader.read_exact(&mut buf[..])?;", "let _ = reader.read_exact(&mut buf[..]);", note="Ok on short input")
m("c13-auto-boundary-neutral", "C13", AU, """        if length <= Bvp::capacity() {
            Ok(Bv::Fixed(Bvp::read(reader, length, endianness)?))""", """        if length < Bvp::capacity() {
            Ok(Bv::Fixed(Bvp::read(reader, length, endianness)?))""", expect="clean", note="negative control: 128-bit reads go through Bvd instead - behaviour preserving")
m("c13-to_vec-big-partial", "C13", DY, """                for i in 0..num_bytes {
                    buf[num_bytes - i - 1] = ((self.data[i / Self::BYTE_UNIT]""", """                for i in 0..num_bytes {
                    buf[num_bytes - i - 1] = ((self.data[(i / Self::BYTE_UNIT).min(1)]""", note="big-endian emission wrong beyond the second word")
m("c13-eintr-gives-up", "C13", FX, "reader.read_exact(&mut buf[..])?;", """{
            let mut done = 0;
            while done < buf.len() {
                match reader.read(&mut buf[done..]) {
                    Ok(0) => return Err(std::io::Error::new(std::io::ErrorKind::UnexpectedEof, "eof")),
                    Ok(n) => done += n,
                    Err(e) => return Err(e),
                }
            }
        }""", note="hand-rolled loop that does not retry on Interrupted")
# ---------------------------------------------------------------- C03
m("c03-no-mod2n-addsub", "C03", FX, """                    for i in N2..N1 {
                        carry = self.data[i].$carry_method(I1::ZERO, carry);
                    }
                    self.mod2n(self.length);""", """                    for i in N2..N1 {
                        carry = self.data[i].$carry_method(I1::ZERO, carry);
                    }""", note="carry out of the top bit stays in the padding")
m("c03-pop-keeps-bit", "C03", DY, """        let bit = self.get(self.length - 1);
        self.set(self.length - 1, Bit::Zero);
        self.length -= 1;""", """        let bit = self.get(self.length - 1);
        self.length -= 1;""", note="popped bit stays in storage: growth exposes it")
m("c03-resize-skip-upper-words", "C03", DY, """            for i in (new_len / Self::BIT_UNIT + 1)..Self::capacity_from_bit_len(self.length) {
                self.data[i] = 0;
            }
            if let Some(l) = self.data.get_mut(new_len / Self::BIT_UNIT) {""", """            if let Some(l) = self.data.get_mut(new_len / Self::BIT_UNIT) {""", note="truncate leaves whole upper words")
m("c03-copy_range-no-mask", "C03", FX, """        if let Some(last) = data.get_mut(length / Self::BIT_UNIT) {
            *last &= I::mask(length.wrapping_sub(1) % Self::BIT_UNIT + 1);
        }

        Bvf::<I, N> { data, length }""", """        Bvf::<I, N> { data, length }""", note="slice keeps source bits above its length")
m("c03-shrink-raw-demote", "C03", AU, """                let new_b = Bvp::try_from(&*b).unwrap();
                *self = Bv::Fixed(new_b);""", """                let (d, l) = b.clone().into_inner();
                let mut w = [0u64; 2];
                for i in 0..usize::min(2, d.len()) {
                    w[i] = d[i];
                }
                *self = Bv::Fixed(Bvp::new(w, l));""", expect="either", note="demote with a raw word copy: only differs when the heap vector has dirty words, which the repaired tree no longer produces")
m("c03-not-ref-no-mask", "C03", DY, """        if let Some(l) = new_data.get_mut(self.length / Bvd::BIT_UNIT) {
            *l &= u64::mask(self.length % Bvd::BIT_UNIT);
        }
        Bvd {
            data: new_data.into_boxed_slice(),
            length: self.length,
        }""", """        Bvd {
            data: new_data.into_boxed_slice(),
            length: self.length,
        }""", note="!&bvd leaves ones in the padding")
# ---------------------------------------------------------------- C07
m("c07-insert-order", "C07", LB, """        self.append(infix);
        self.append(&tmp);""", """        self.append(&tmp);
        self.append(infix);""")
m("c07-extend-take-hint", "C07", DY, """        self.reserve(iter.size_hint().0);
        iter.for_each(|b| self.push(b));""", """        let n = iter.size_hint().0;
        self.reserve(n);
        iter.take(n).for_each(|b| self.push(b));""", note="trusts the lower bound of size_hint")
m("c07-sign-extend-bit0", "C07", LB, "                l => self.get(l - 1),", "                _ => self.get(0),")
m("c07-auto-append-boundary-neutral", "C07", AU, """                if bvf.len() + suffix.len() <= Bvp::capacity() {
                    bvf.append(suffix);""", """                if bvf.len() + suffix.len() < Bvp::capacity() {
                    bvf.append(suffix);""", expect="clean", note="negative control: promotes one bit earlier - behaviour preserving")
m("c07-prepend-offbyone", "C07", DY, "        let last = prefix.int_len::<u64>() - 1;\n\n        for i in 0..last {\n            self.data[i] = prefix.get_int::<u64>(i).unwrap();", "        let last = prefix.int_len::<u64>() - 1;\n\n        for i in 1..last {\n            self.data[i] = prefix.get_int::<u64>(i).unwrap();", note="first word of a >2-word prefix is lost")
# ---------------------------------------------------------------- C10
m("c10-hash-all-words", "C10", DY, "        for i in 0..Self::capacity_from_bit_len(self.significant_bits()) {\n            self.data[i].hash(state);", "        for i in 0..self.data.len() {\n            self.data[i].hash(state);", note="hash depends on allocated capacity")
m("c10-hash-discriminant", "C10", AU, "        for i in 0..(self.significant_bits() + 63) / 64 {", "        std::mem::discriminant(self).hash(state);\n        for i in 0..(self.significant_bits() + 63) / 64 {", note="hash depends on inline vs heap")
m("c10-hash-len-again", "C10", FX, "        for i in 0..Self::capacity_from_bit_len(self.significant_bits()) {\n            self.data[i].hash(state);", "        self.length.hash(state);\n        for i in 0..Self::capacity_from_bit_len(self.significant_bits()) {\n            self.data[i].hash(state);")
# ---------------------------------------------------------------- C12
m("c12-bvd-to-bvf-raw", "C12", FX, """            for i in 0..N {
                data[i] = bvd.get_int(i).unwrap_or(I::ZERO);
            }
            Ok(Bvf::<I, N> {
                data,
                length: bvd.len(),""", """            let (raw, _) = bvd.clone().into_inner();
            let tmp = Bvd::new(raw.clone(), raw.len() * 64);
            for i in 0..N {
                data[i] = tmp.get_int(i).unwrap_or(I::ZERO);
            }
            Ok(Bvf::<I, N> {
                data,
                length: bvd.len(),""", expect="either", note="copies raw words incl. spare: only differs for dirty sources, which the repaired tree no longer produces")
m("c12-capacity-boundary", "C12", FX, "        if Self::capacity() < bvf.length {\n            Err(ConvertionError::NotEnoughCapacity)", "        if Self::capacity() <= bvf.length {\n            Err(ConvertionError::NotEnoughCapacity)", note="Err at n == capacity")
m("c12-bvf-to-bvd-drops-word", "C12", DY, """            data: (0..IArray::int_len::<u64>(rhs))
                .map(|i| IArray::get_int(rhs, i).unwrap())
                .collect(),""", """            data: (0..IArray::int_len::<u64>(rhs))
                .map(|i| if i == 2 { 0 } else { IArray::get_int(rhs, i).unwrap() })
                .collect(),""", note="third 64-bit word lost when converting a long Bvf to Bvd")
# ---------------------------------------------------------------- C16
m("c16-lz-no-mask", "C16", DY, "            let mut v = self.data[i - 1] & u64::mask(lastbit);\n            count += Integer::leading_zeros(&v) - (Self::BIT_UNIT - lastbit);", "            let mut v = self.data[i - 1];\n            count += Integer::leading_zeros(&v) - (Self::BIT_UNIT - lastbit);", expect="either", note="only differs with dirty padding")
m("c16-is_zero-all-words", "C16", DY, "        self.data[0..Self::capacity_from_bit_len(self.length)]\n            .iter()\n            .all(|&x| x == 0)", "        self.data.iter().all(|&x| x == 0)", expect="either", note="only differs with garbage in spare words")
m("c16-trailing-ones-lastbit", "C16", FX, "                count += usize::min(self.data[i].trailing_ones(), lastbit);", "                count += self.data[i].trailing_ones();", expect="either", note="equivalent while padding is zero")
m("c16-tz-word-boundary", "C16", DY, "            while v == 0 && i < Self::capacity_from_bit_len(self.length) - 1 {\n                v = self.data[i];\n                count += Integer::trailing_zeros(&v);", "            while v == 0 && i < Self::capacity_from_bit_len(self.length) - 1 {\n                v = self.data[i];\n                count += Integer::trailing_zeros(&v).min(63);", note="run of zeros crossing a word boundary is one short per word")
# ---------------------------------------------------------------- C17
m("c17-nth_back-end", "C17", IT, "            self.range.end -= n + 1;", "            self.range.end -= n;")
m("c17-size_hint-none", "C17", IT, "        (remaining, Some(remaining))", "        (remaining, None)")
m("c17-count-plus-one", "C17", IT, "    fn count(self) -> usize {\n        self.range.end - self.range.start", "    fn count(self) -> usize {\n        (self.range.end - self.range.start).max(1)", note="count of an exhausted iterator is 1")
m("c17-nth-exhaust-keeps", "C17", IT, "            self.range.start = self.range.end;\n            None", "            None", note="a failed nth does not exhaust the iterator")
# ---------------------------------------------------------------- C18
m("c18-reserve-drops-word", "C18", DY, "            for i in 0..self.data.len() {\n                new_data[i] = self.data[i];\n            }", "            for i in 0..self.data.len().saturating_sub(1).max(1).min(self.data.len()) {\n                new_data[i] = self.data[i];\n            }", note="reserve loses the last word when reallocating")
m("c18-shrink-keeps-word", "C18", DY, "        if Self::capacity_from_bit_len(self.length) < self.data.len() {\n            // TODO: in place reallocation\n            let mut new_data: Vec<u64> = repeat(0)\n                .take(Self::capacity_from_bit_len(self.length))", "        if Self::capacity_from_bit_len(self.length) + 1 < self.data.len() {\n            // TODO: in place reallocation\n            let mut new_data: Vec<u64> = repeat(0)\n                .take(Self::capacity_from_bit_len(self.length) + 1)", note="shrink_to_fit keeps one extra word")
m("c18-with_capacity-half", "C18", AU, "            Bv::Dynamic(Bvd::with_capacity(capacity))", "            Bv::Dynamic(Bvd::with_capacity(capacity / 2))")
m("c18-reserve-bits-vs-words", "C18", DY, "        let new_capacity = self.length + additional;\n        if Self::capacity_from_bit_len(new_capacity) > self.data.len() {", "        let new_capacity = self.length + additional;\n        if Self::capacity_from_bit_len(new_capacity) > self.data.len() + 1 {", note="reserve under-allocates by up to a word")
# ---------------------------------------------------------------- C19
m("c19-zeros-debug-assert", "C19", FX, "    fn zeros(length: usize) -> Self {\n        assert!(length <= Self::capacity());", "    fn zeros(length: usize) -> Self {\n        debug_assert!(length <= Self::capacity());", note="release profile only")
m("c19-from_hex-len", "C19", FX, "        if length * 4 > Self::capacity() {", "        if length > Self::capacity() {")
m("c19-push-no-check", "C19", FX, "        assert!(self.length < Self::capacity());\n        self.length += 1;", "        self.length += 1;")
m("c19-resize-debug-assert", "C19", FX, "            assert!(new_len <= Self::capacity());\n            let sign_pattern", "            debug_assert!(new_len <= Self::capacity());\n            let sign_pattern", note="the original defect D7")
m("c19-read-no-cap-check", "C19", FX, """        if length > Self::capacity() {
            return Err(std::io::Error::new(
                std::io::ErrorKind::InvalidInput,
                ConvertionError::NotEnoughCapacity,
            ));
        }
        let num_bytes""", """        let num_bytes""", expect="either", note="from_bytes still rejects whole bytes beyond capacity; lengths within the last byte slip through")
m("c19-get-no-debug-assert", "C19", DY, "    fn get(&self, index: usize) -> Bit {\n        debug_assert!(index < self.length);", "    fn get(&self, index: usize) -> Bit {", expect="either", note="Bvd is not a fixed type; C19's debug clause is checked on fixed types and on Bv")
m("c19-get-no-debug-assert-bvf", "C19", FX, "    fn get(&self, index: usize) -> Bit {\n        debug_assert!(index < self.length);", "    fn get(&self, index: usize) -> Bit {")
