#!/usr/bin/env python3
"""Apply each deliberate breakage to /repo's working tree, run the quick check of its property,
record caught / survived, and revert. Usage: run.py [id-substring ...]  (writes results.json)"""
import json, os, subprocess, sys, time

HERE = os.path.dirname(os.path.abspath(__file__))
ROOT = os.path.dirname(HERE)
sys.path.insert(0, HERE)
from mutants import M

REPO = "/repo"


def sh(cmd, **kw):
    return subprocess.run(cmd, stdout=subprocess.PIPE, stderr=subprocess.STDOUT, text=True, **kw)


def main():
    want = sys.argv[1:]
    if sh(["git", "-C", REPO, "status", "--porcelain", "--", "src"]).stdout.strip():
        print("refusing: /repo/src has uncommitted changes")
        return 2
    respath = os.path.join(HERE, "results.json")
    results = json.load(open(respath)) if os.path.exists(respath) else {}
    for mu in M:
        if want and not any(w in mu["id"] for w in want):
            continue
        path = os.path.join(REPO, "src", mu["file"])
        src = open(path).read()
        if src.count(mu["old"]) != mu["count"]:
            print("%-32s SKIP: pattern occurs %d times (want %d)" % (mu["id"], src.count(mu["old"]), mu["count"]))
            results[mu["id"]] = dict(prop=mu["prop"], outcome="pattern-mismatch")
            continue
        t0 = time.time()
        try:
            open(path, "w").write(src.replace(mu["old"], mu["new"]))
            env = dict(os.environ, VERIF_RUNS_SCALE=os.environ.get("VERIF_RUNS_SCALE", "1"))
            r = sh([os.path.join(ROOT, "check"), mu["prop"], "quick"], cwd=ROOT, env=env)
        finally:
            sh(["git", "-C", REPO, "checkout", "--", "src"])
        caught = ("VIOLATION property=%s" % mu["prop"]) in r.stdout
        if r.returncode == 2:
            outcome = "harness-error"
        else:
            outcome = "caught" if caught else "clean"
        first = [l for l in r.stdout.splitlines() if l.startswith("check: [")][:2]
        ok = (mu["expect"] == "either") or (mu["expect"] == outcome)
        print("%-32s %-4s expect=%-7s got=%-13s %s %5.0fs  %s" % (mu["id"], mu["prop"], mu["expect"], outcome, "OK " if ok else "BAD", time.time() - t0, (first[0][:150] if first else "")))
        if outcome == "harness-error":
            print(r.stdout[-1500:])
        results[mu["id"]] = dict(prop=mu["prop"], expect=mu["expect"], outcome=outcome, ok=ok, note=mu["note"], first=first[:1], seconds=round(time.time() - t0))
        json.dump(results, open(respath, "w"), indent=1)
    return 0


if __name__ == "__main__":
    sys.exit(main())
