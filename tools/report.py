#!/usr/bin/env python3
"""Regenerate sensitivity.md (kill table of deliberate breakages) and seeded/README.md (which check
catches which independently seeded change) from the result files written by sensitivity/run.py and
seeded/run.py."""
import json, os
ROOT = os.path.dirname(os.path.dirname(os.path.abspath(__file__)))
s = json.load(open(os.path.join(ROOT, "sensitivity", "results.json")))
out = ["# Sensitivity: deliberate breakages (sensitivity/mutants.py) against the quick checks", "",
       "`expect=clean` rows are behaviour-preserving edits (negative controls): the check must stay green.",
       "`expect=either` rows only differ from the original on vectors with dirty padding / garbage in spare words, which the repaired tree no longer produces; their survival is recorded, not hidden.", "",
       "| id | property | expected | outcome | s | first violation reported / note |", "|---|---|---|---|---|---|"]
for k, v in s.items():
    first = (v.get("first") or [""])[0].replace("|", "\\|")[:170]
    out.append("| %s | %s | %s | %s | %s | %s |" % (k, v["prop"], v.get("expect", ""), v["outcome"], v.get("seconds", ""), first or v.get("note", "")))
ok = sum(1 for v in s.values() if v.get("ok"))
out += ["", "%d / %d as expected." % (ok, len(s))]
open(os.path.join(ROOT, "sensitivity.md"), "w").write("\n".join(out) + "\n")
r = json.load(open(os.path.join(ROOT, "seeded", "results.json")))
out = ["# Independently seeded changes and the checks that catch them", "",
       "Each directory holds `patch.diff` (a change to haxelion/bva that compiles and passes the 235 unit tests + doctests),",
       "`demo.rs` (fails with the change, passes without) and `meta.json` (what it needs to manifest, what was run to confirm it).",
       "They were written by sub-agents that saw only the property text and a scratch worktree. `seeded/run.py` applies each to /repo,",
       "runs the check(s) and reverts.", "", "| id | breaks | check | tier | outcome | s | first violation reported |", "|---|---|---|---|---|---|---|"]
for k in sorted(r):
    for p, c in sorted(r[k]["checks"].items()):
        out.append("| %s | %s | %s | %s | %s | %s | %s |" % (k, r[k]["property"], p, c["tier"], c["outcome"], c["seconds"], c["first"].replace("|", "\\|")[:170]))
n = len(r); caught = sum(1 for k in r if r[k]["checks"].get(r[k]["property"], {}).get("outcome") == "caught")
out += ["", "%d / %d seeded changes are caught by the check of the property they break." % (caught, n)]
open(os.path.join(ROOT, "seeded", "README.md"), "w").write("\n".join(out) + "\n")
print("sensitivity %d/%d as expected; seeded %d/%d caught" % (ok, len(s), caught, n))
