#!/bin/bash
# false-alarm soak: every check, quick tier, on a range of VERIF_SEED values.
# usage: ./soak.sh <first-seed> <last-seed> [tier]   (BVA_REPO may point at a snapshot of the repository)
cd "$(dirname "$0")"
tier=${3:-quick}
bad=0
for s in $(seq $1 $2); do
  for p in C03 C07 C10 C12 C13 C16 C17 C18 C19; do
    out=$(VERIF_SEED=$s ./check $p $tier 2>&1); rc=$?
    echo "seed=$s $(echo "$out" | tail -1) rc=$rc"
    if [ $rc -ne 0 ]; then bad=1; echo "$out" | grep -E "^check: \[|VIOLATION|harness" | head -5; fi
  done
done
echo "soak done bad=$bad"
exit $bad
